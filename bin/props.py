"""Per-property configuration of the orchestrator (bin/check)."""

COLUMN_TRACE = {'module': 'ColumnTrace', 'cfg': 'ColumnTrace.cfg'}

def seq_prop(profile, nq, nt, mc=None):
    return {'level': 'model_checking', 'mc': mc or [],
            'families': [{'family': 'seq', 'profile': profile, 'n_quick': nq, 'n_thorough': nt}],
            'trace': COLUMN_TRACE, 'assumptions': []}


PROPS = {
    'C02': seq_prop('c02', 60, 1500),
    'C03': seq_prop('c03', 60, 1500),
    'C06': seq_prop('c06', 60, 1500),
    'C11': seq_prop('c11', 60, 1500),
    'C15': seq_prop('c15', 60, 1500),
    'C16': seq_prop('c16', 60, 1500),
    'C19': seq_prop('c19', 60, 1500),
    'C01': {
        'level': 'model_checking',
        'mc': [],
        'families': [
            {'family': 'seq', 'profile': 'c01', 'n_quick': 60, 'n_thorough': 1500},
        ],
        'trace': COLUMN_TRACE,
        'assumptions': [
            'the harness token table maps tokens to concrete values by exact bit / byte comparison (trusted)',
            'values of merge columns are small integers / short strings so that TLC can compute with them',
        ],
    },
}
