"""Per-property configuration of the orchestrator (bin/check)."""

COLUMN_TRACE = {'module': 'ColumnTrace', 'cfg': 'ColumnTrace.cfg'}

def fam(family, profile, nq, nt, **kw):
    d = {'family': family, 'profile': profile, 'n_quick': nq, 'n_thorough': nt}
    d.update(kw)
    return d


def seq_prop(profile, nq, nt, mc=None, more=None):
    return {'level': 'model_checking', 'mc': mc or [],
            'families': [fam('seq', profile, nq, nt)] + (more or []),
            'trace': COLUMN_TRACE, 'assumptions': []}


PROPS = {
    'C02': seq_prop('c02', 60, 1500, more=[fam('conc', 'c02', 16, 300)]),
    'C03': seq_prop('c03', 60, 1500),
    'C06': seq_prop('c06', 60, 1500, more=[fam('conc', 'c06', 24, 400), fam('conc', 'c06dfs', 2, 16)]),
    'C09': {'level': 'model_checking', 'mc': [], 'families': [fam('conc', 'c09', 32, 500)], 'trace': COLUMN_TRACE, 'assumptions': []},
    'C11': seq_prop('c11', 60, 1500, more=[fam('conc', 'c11', 24, 400)]),
    'C15': seq_prop('c15', 60, 1500, more=[fam('conc', 'c15', 24, 400)]),
    'C16': seq_prop('c16', 60, 1500),
    'C19': seq_prop('c19', 60, 1500),
    'C01': {
        'level': 'model_checking',
        'mc': [],
        'families': [
            {'family': 'seq', 'profile': 'c01', 'n_quick': 60, 'n_thorough': 1500},
        ],
        'trace': COLUMN_TRACE,
        'assumptions': [
            'the harness token table maps tokens to concrete values by exact bit / byte comparison (trusted)',
            'values of merge columns are small integers / short strings so that TLC can compute with them',
        ],
    },
}
