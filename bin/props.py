"""Per-property configuration of the orchestrator (bin/check)."""

COLUMN_TRACE = {'module': 'ColumnTrace', 'cfg': 'ColumnTrace.cfg'}

def fam(family, profile, nq, nt, **kw):
    d = {'family': family, 'profile': profile, 'n_quick': nq, 'n_thorough': nt}
    d.update(kw)
    return d


def seq_prop(profile, nq, nt, mc=None, more=None):
    return {'level': 'model_checking', 'mc': mc or [],
            'families': [fam('seq', profile, nq, nt)] + (more or []),
            'trace': COLUMN_TRACE, 'assumptions': []}



def mc_store(quick, thorough, **kw):
    d = {'module': 'MCColumn', 'cfg': 'MC_Store.cfg', 'constants': {'FAIL': 'FALSE', 'ROLLBACK': 'TRUE', 'HASMODE': 'any', 'MAXOPS': '2'},
         'quick': quick, 'thorough': thorough}
    d.update(kw)
    return d


def mc_conc(quick, thorough, **kw):
    d = {'module': 'MCColumn', 'cfg': 'MC_Conc.cfg',
         'constants': {'FAIL': 'FALSE', 'ROLLBACK': 'FALSE', 'MAXOPS': '2', 'LAYOUTS': 'Layout02', 'TRANSPORT': 'chan', 'ATEND': 'TRUE'},
         'quick': quick, 'thorough': thorough}
    d.update(kw)
    return d


# exhaustive configurations shared by several properties (each property lists the ones that decide it)
MC_STORE_STRICT = mc_store({'MAXOPS': '2'}, {'MAXOPS': '3', 'HASMODE': 'all'})
MC_STORE_ASBUILT = mc_store({'MAXOPS': '2'}, {'MAXOPS': '2', 'FAIL': 'TRUE'}, asbuilt=True)
MC_STORE_NEG = mc_store({'MAXOPS': '2'}, {'MAXOPS': '2'}, asbuilt=True, expect_violation=True, thorough_only=True)
MC_ATOMIC = mc_store({'MAXOPS': '2', 'FAIL': 'TRUE'}, {'MAXOPS': '3', 'FAIL': 'TRUE', 'HASMODE': 'all'})
MC_CONC_STRICT = mc_conc({}, {'LAYOUTS': 'LayoutSome', 'ATEND': 'FALSE'}, timeout=2400)
MC_CONC_LOG = mc_conc({'TRANSPORT': 'log'}, {'TRANSPORT': 'log', 'LAYOUTS': 'LayoutSome'}, thorough_only=True, timeout=2400)
MC_CONC_ASBUILT = mc_conc({}, {'ROLLBACK': 'TRUE'}, asbuilt=True, thorough_only=True, timeout=2400)
MC_CONC_NEG = mc_conc({}, {}, asbuilt=True, expect_violation=True, thorough_only=True)

# schema changes between transactions: indexes / sorted indexes / triggers created late and dropped, columns dropped and re-created
MC_SCHEMA = {'module': 'MCColumn', 'cfg': 'MC_Schema.cfg',
             'constants': {'MAXOPS': '1', 'LAYOUTS': 'Layout02', 'IDX': 'IdxNone', 'SORT': 'NoDefs', 'LATE': 'LateQuick'},
             'quick': {}, 'thorough': {'MAXOPS': '2'}, 'timeout': 3000}     # thorough: 3.9 M states, about 4 min
MC_SCHEMA_COLS = dict(MC_SCHEMA, thorough={'LATE': 'LateCols', 'IDX': 'IdxInt', 'SORT': 'SortS', 'LAYOUTS': 'LayoutSome'}, thorough_only=True)

MC_KEYS_STRICT = mc_conc({'MAXOPS': '2', 'LAYOUTS': 'LayoutSome', 'TRANSPORT': 'log'}, {'MAXOPS': '3', 'LAYOUTS': 'LayoutSome', 'TRANSPORT': 'log'}, cfg='MC_Keys.cfg')
MC_KEYS_ASBUILT = mc_conc({'MAXOPS': '2', 'TRANSPORT': 'log'}, {'MAXOPS': '2', 'LAYOUTS': 'LayoutSome', 'TRANSPORT': 'log'}, cfg='MC_Keys.cfg', asbuilt=True, thorough_only=True)

MC_SNAP = mc_conc({'MAXOPS': '1', 'TRANSPORT': 'log', 'SNAPFAILS': 'FALSE'}, {'MAXOPS': '2', 'TRANSPORT': 'log', 'SNAPFAILS': 'FALSE'}, cfg='MC_Snap.cfg', timeout=3000)
MC_SNAP_FAIL = mc_conc({'MAXOPS': '1', 'TRANSPORT': 'log', 'SNAPFAILS': 'TRUE'}, {'MAXOPS': '1', 'TRANSPORT': 'log', 'SNAPFAILS': 'TRUE', 'LAYOUTS': 'LayoutSome'}, cfg='MC_Snap.cfg', timeout=3000)
MC_SNAP_ASBUILT = mc_conc({'MAXOPS': '1', 'TRANSPORT': 'log', 'SNAPFAILS': 'FALSE'}, {'MAXOPS': '1', 'TRANSPORT': 'log', 'SNAPFAILS': 'TRUE'}, cfg='MC_Snap.cfg', asbuilt=True, thorough_only=True, timeout=3000)

# two overlapping snapshots (one writer, a failing first snapshot with retries): either file restores to a consistent cut
MC_SNAP2_G = mc_conc({'MAXOPS': '2', 'TRANSPORT': 'log', 'SNAPFAILS': 'TRUE', 'RSTFILE': 'g'}, {'MAXOPS': '2', 'TRANSPORT': 'log', 'SNAPFAILS': 'TRUE', 'RSTFILE': 'g'}, cfg='MC_Snap2.cfg', timeout=3000)
MC_SNAP2_F = mc_conc({'MAXOPS': '2', 'TRANSPORT': 'log', 'SNAPFAILS': 'TRUE', 'RSTFILE': 'f'}, {'MAXOPS': '2', 'TRANSPORT': 'log', 'SNAPFAILS': 'TRUE', 'RSTFILE': 'f'}, cfg='MC_Snap2.cfg', thorough_only=True, timeout=3000)

PROPS = {
    'C01': seq_prop('c01', 150, 2500, mc=[MC_STORE_STRICT, MC_STORE_ASBUILT, MC_STORE_NEG, MC_SCHEMA, MC_SCHEMA_COLS], more=[fam('seq', 'c01w', 24, 300)]),
    'C02': seq_prop('c02', 120, 2000, mc=[MC_ATOMIC], more=[fam('seq', 'c02k', 60, 1000), fam('seq', 'c01w', 16, 200), fam('conc', 'c02', 16, 300), fam('conc', 'c02i', 24, 300)]),
    'C03': seq_prop('c03', 150, 2500, mc=[MC_STORE_STRICT, MC_STORE_ASBUILT, MC_SCHEMA, MC_SCHEMA_COLS]),
    'C04': {'level': 'model_checking', 'mc': [], 'trace': COLUMN_TRACE, 'assumptions': [],
            'families': [
                fam('filt', 'tlc', 40, 60, gen={'module': 'GenFilter', 'cfg': 'GenFilter.cfg', 'arg': '-chains', 'cover': 60,
                                               'quick': {'MAXLEN': '2', 'PAIRS': 'FALSE'}, 'thorough': {'MAXLEN': '2', 'PAIRS': 'TRUE'},
                                               'quick_all': True, 'thorough_all': True}),
                fam('filt', 'rnd', 24, 300)]},
    'C05': {'level': 'model_checking', 'assumptions': [],
            'mc': [{'module': 'MCBuffer', 'cfg': 'MC_Buffer.cfg', 'constants': {}, 'quick': {'MAXLEN': '4'}, 'thorough': {'MAXLEN': '5'}, 'deadlock': True},
                   {'module': 'MCBuffer', 'cfg': 'MC_Buffer.cfg', 'constants': {}, 'quick': {'MAXLEN': '4'}, 'thorough': {'MAXLEN': '5'}, 'asbuilt': True, 'deadlock': True}],
            'trace': {'module': 'BufferTrace', 'cfg': 'BufferTrace.cfg'},
            'families': [
                fam('buf', 'tlc', 8, 16, shards=8, gen={'module': 'GenBuffer', 'cfg': 'GenBuffer.cfg', 'arg': '-chains', 'cover': 250,
                    'quick': {'MAXLEN': '2', 'KINDS': '{"del", "ins", "put", "mrg", "t", "f"}', 'WIDTHS': '{"w2", "w8", "s1", "s128"}',
                              'MOVES': '{"same", "next", "m128", "m16384", "back", "home"}'},
                    'thorough': {'MAXLEN': '3', 'KINDS': '{"del", "put", "mrg", "f"}', 'WIDTHS': '{"w2", "w8", "s0", "s128"}',
                                 'MOVES': '{"same", "next", "m16384", "jump", "back", "home"}'},
                    'quick_all': True, 'thorough_all': True}),
                fam('buf', 'rnd', 16, 400, shards=8)]},
    'C06': seq_prop('c06', 60, 1500, mc=[MC_CONC_STRICT, MC_CONC_LOG, MC_CONC_ASBUILT, MC_CONC_NEG],
                    more=[fam('conc', 'c06', 24, 400), fam('conc', 'c06dfs', 1, 16)]),
    'C07': seq_prop('c07', 120, 2000, mc=[MC_SNAP], more=[fam('seq', 'c07k', 40, 500),
                                                              # rows with a time-to-live: the restored collection's own vacuum takes them out like the original's
                                                              fam('exp', 'c07', 8, 32, shards=8, trace={'module': 'ExpireTrace', 'cfg': 'ExpireTrace.cfg'})]),
    'C08': {'level': 'model_checking', 'mc': [MC_SNAP, MC_SNAP_ASBUILT, MC_SNAP2_G, MC_SNAP2_F], 'families': [fam('conc', 'c08', 32, 500), fam('conc', 'c14x', 16, 200), fam('conc', 'c08dfs', 1, 12),
                                                                                                # real parallelism: 4-6 goroutines committing to one block beside the snapshot goroutine
                                                                                                fam('par', 'c08', 16, 300)], 'trace': COLUMN_TRACE, 'assumptions': []},
    'C09': {'level': 'model_checking', 'mc': [MC_CONC_STRICT], 'families': [fam('conc', 'c09', 48, 800), fam('par', 'c09', 8, 200)], 'trace': COLUMN_TRACE, 'assumptions': []},
    'C10': {'level': 'model_checking', 'assumptions': ['torn reads are searched for statistically under real parallelism (16 cores); the latch probes are deterministic'],
            'mc': [{'module': 'Latch', 'cfg': 'MC_Latch.cfg', 'constants': {'READLATCH': 'TRUE'}, 'quick': {}, 'thorough': {}, 'deadlock': True},
                   {'module': 'Latch', 'cfg': 'MC_Latch.cfg', 'constants': {'READLATCH': 'TRUE'}, 'quick': {}, 'thorough': {}, 'deadlock': True, 'asbuilt': True},
                   {'module': 'Latch', 'cfg': 'MC_Latch.cfg', 'constants': {'READLATCH': 'FALSE'}, 'quick': {}, 'thorough': {}, 'deadlock': True, 'expect_violation': True}],
            'trace': {'module': 'LatchTrace', 'cfg': 'LatchTrace.cfg', 'heap': '8g'},
            # inductive invariant of the latch protocol for any number of versions (Apalache); negative control: RLock without its guard
            'apalache': [{'module': 'LatchInd', 'quick': True,
                          'steps': [['--cinit=CInit', '--init=Init', '--inv=IndInv', '--length=0'],
                                    ['--cinit=CInit', '--init=IndInit', '--inv=IndInv', '--length=1'],
                                    ['--cinit=CInit', '--init=IndInit', '--inv=NoTornRead', '--length=0']],
                          'negative': ('RLock(r)  == rpc[r] = "idle" /\\ wHolder = None', 'RLock(r)  == rpc[r] = "idle"')}],
            'families': [fam('latch', 'short', 3, 0, shards=1), fam('latch', 'long', 0, 4, shards=1)]},
    'C11': seq_prop('c11', 100, 2000, mc=[MC_CONC_STRICT, MC_CONC_ASBUILT], more=[fam('conc', 'c11', 32, 500)]),
    'C12': seq_prop('c12', 150, 2500, mc=[MC_KEYS_STRICT, MC_KEYS_ASBUILT], more=[fam('conc', 'c12', 24, 400)]),
    'C13': {'level': 'model_checking', 'mc': [MC_SNAP], 'families': [fam('trunc', 'c13', 8, 16, shards=8), fam('trunc', 'c13t', 0, 8, shards=8),
                         fam('truncbig', 'some', 4, 0, shards=4, trace={'module': 'PrefixTrace', 'cfg': 'PrefixTrace.cfg'}),
                         fam('truncbig', 'all', 0, 8, shards=8, trace={'module': 'PrefixTrace', 'cfg': 'PrefixTrace.cfg'})], 'trace': COLUMN_TRACE, 'assumptions': []},
    'C14': {'level': 'model_checking', 'mc': [MC_SNAP_FAIL, MC_SNAP2_G, MC_SNAP2_F], 'families': [fam('fault', 'c14', 12, 12, shards=6), fam('fault', 'c14big', 2, 8, shards=2), fam('conc', 'c14x', 24, 300), fam('fault', 'c14t', 0, 6, shards=6)], 'trace': COLUMN_TRACE, 'assumptions': []},
    'C15': seq_prop('c15', 100, 2000, mc=[MC_CONC_STRICT], more=[fam('conc', 'c15', 32, 500)]),
    'C16': seq_prop('c16', 150, 2500, mc=[MC_STORE_STRICT, MC_SCHEMA, MC_SCHEMA_COLS]),
    'C17': {'level': 'model_checking', 'assumptions': ['wall-clock: removals are timestamped inside the logger callback; "must be gone" leaves 10 intervals + 3 s of slack'],
            'mc': [{'module': 'Expire', 'cfg': 'MC_Expire.cfg', 'constants': {}, 'quick': {'R3': ''}, 'thorough': {'R3': ', r3'}, 'deadlock': True},
                   {'module': 'Expire', 'cfg': 'MC_Expire.cfg', 'constants': {}, 'quick': {'R3': ''}, 'thorough': {'R3': ', r3'}, 'asbuilt': True, 'deadlock': True}],
            'trace': {'module': 'ExpireTrace', 'cfg': 'ExpireTrace.cfg'},
            'families': [fam('exp', 'c17', 16, 64, shards=16)]},
    'C18': {'level': 'exploration', 'race': True, 'custom': 'c18', 'assumptions': ['the race detector only reports races that happen in the explored executions', 'reports are attributed to model variables by the function table of bin/racemap.py'],
            'mc': [{'module': 'MCLocks', 'cfg': 'MC_Locks.cfg', 'constants': {'RACY': '{"colList", "registry", "data0", "idxFill"}', 'PROPS': ''},
                    'quick': {'THREADS': '{"reader", "writer0", "grow", "ins", "snap"}'}, 'thorough': {'THREADS': '{"reader", "writer0", "grow", "ins", "snap", "index"}'}, 'deadlock': True},
                   {'module': 'MCLocks', 'cfg': 'MC_Locks.cfg', 'constants': {'RACY': '{}', 'PROPS': '', 'THREADS': '{"reader", "writer0", "grow", "ins", "snap", "index"}'},
                    'quick': {}, 'thorough': {}, 'deadlock': True, 'expect_violation': True},
                   {'module': 'MCLocks', 'cfg': 'MC_Locks.cfg', 'constants': {'RACY': '{"colList", "registry", "data0", "idxFill"}', 'PROPS': 'PROPERTIES Termination', 'THREADS': '{"reader", "writer0", "ins"}'},
                    'quick': {}, 'thorough': {}, 'deadlock': True, 'thorough_only': True}],
            'trace': {'module': 'LocksTrace', 'cfg': 'LocksTrace.cfg'}, 'families': []},
    'C19': seq_prop('c19', 150, 2500, mc=[MC_STORE_STRICT, MC_SCHEMA, MC_SCHEMA_COLS]),
}
