"""Per-property configuration of the orchestrator (bin/check)."""

COLUMN_TRACE = {'module': 'ColumnTrace', 'cfg': 'ColumnTrace.cfg'}

PROPS = {
    'C01': {
        'level': 'model_checking',
        'mc': [],
        'families': [
            {'family': 'seq', 'profile': 'c01', 'n_quick': 60, 'n_thorough': 1500},
        ],
        'trace': COLUMN_TRACE,
        'assumptions': [
            'the harness token table maps tokens to concrete values by exact bit / byte comparison (trusted)',
            'values of merge columns are small integers / short strings so that TLC can compute with them',
        ],
    },
}
