"""Per-property texts of MANIFEST.json (level, trusted base, technique)."""

_T = 'TLA+ specification + TLC: exhaustive model checking of small configurations; trace validation of real executions'
_NOTE = ('Trusted: TLC; the Go harness (driver, tracer, projection through the public API, token table mapping tokens to exact '
         'bytes/bits); the hand-written correspondence between specification actions and code (DESIGN.md appendix A). Bounds of the '
         'exhaustive runs and the number of real executions validated are in the evidence file. A verdict is only ever drawn from a '
         'real execution that the trace specification rejects.')

TEXTS = {
    'C01': {'text': 'Column.tla defines per row what the committed history says each column holds (ghost gt, ReadBack invariant) next '
                    'to the buffer/two-pass machinery; TLC checks ReadBack exhaustively for every initial layout of 4 offsets in 2 '
                    'blocks x one transaction of <=2 (quick) / 3 (thorough) operations, strict and as-built. Random histories over all '
                    '16 column kinds, extreme values, 6 capacities and up to 3 blocks are run on the real code; the full projection '
                    '(every reader flavour) after every transaction must equal the unique state the specification allows; every third put goes through '
                    'the untyped writers (SetAny / SetMany); columns are created late, dropped and re-created under the same name (MC_Schema '
                    'checks the same between two transactions exhaustively).',
            'note': _NOTE, 'technique': _T},
    'C02': {'text': 'RollbackNoTrace (action property), FillAccounting and the store invariants are model-checked for one writer with '
                    'failing inserts and rollbacks; sequential and scheduler-driven histories with rollbacks, failing inserts and an '
                    'observer (second transaction / dump) in the middle of the writer are validated: dump before/during/after, nothing '
                    'emitted on rollback (the stream is part of the state). Single-operation transactions also go through the collection\'s one-call shortcuts '
                    '(Insert, QueryAt, DeleteAt, InsertKey, UpsertKey, QueryKey, DeleteKey) with failing callbacks: error returned iff the callback failed, and then no trace; '
                    'seq/c02k does the same on a keyed collection; conc/c02i: three writers with mostly inserts, a third of them failing, half of the transactions rolled back '
                    '(an offset given back by one transaction is taken by another at once).',
            'note': _NOTE, 'technique': _T},
    'C03': {'text': 'IndexCoherent is an invariant of the specification (model-checked with three indexes over two columns incl. merge '
                    'and offset reuse) and is evaluated in every state of every validated real execution; histories create and drop '
                    'indexes at any point, on a primary and on a replica fed from the stream; With(index) and Row.Bool(index) per row '
                    'are compared with the predicate evaluated by the specification on its own values. MC_Schema model-checks indexes created (back-filled) '
                    'and dropped between two transactions; DeleteAll and dropped / re-created source columns are part of the histories.',
            'note': _NOTE, 'technique': _T},
    'C04': {'text': 'FilterNames / FilterValue define the selection algebra in the specification (first Union, unknown names, typed '
                    'filters intersecting presence, the one ambiguous case accepted both ways); TLC (GenFilter.tla) enumerates every '
                    'chain of <= 2 operators over With/Without/Union/WithUnion x index, column, unknown names (pairs of names in '
                    'thorough) and the value predicates (also WithValue on a bitmap index: membership as a value); every chain is replayed on the real code on random layouts (dense, sparse, 1-3 '
                    'blocks, rows lacking the column, reused offsets; all ten numeric types) and Count, the Range sequence with the '
                    'values read at each stop, and Sum/Avg/Min/Max are bound to the specification (Count and Range are read again after the '
                    'aggregates: reading is pure); random longer chains on top.',
            'note': _NOTE, 'technique': _T + '; TLC-generated filter chains replayed into the implementation'},
    'C05': {'text': 'Buffer.tla transcribes the delta chain / section structure / rewrite of the commit buffer; RoundTrip, ChainSound and '
                    'AfterRewrite are model-checked for all sequences of <= 4 (quick) / 5 (thorough) operations over 5 offsets in 3 blocks, '
                    'strict and as-built. TLC (GenBuffer.tla) enumerates every sequence of <= 2 (quick) / 3 (thorough) writes over kinds x '
                    'width classes x offset moves; each is replayed into the real commit.Buffer and read back through Reader.Seek/Next, '
                    'Reader.Range per block, Buffer.WriteTo/ReadFrom, Commit.WriteTo/ReadFrom and a real Log file, before and after the '
                    'merges are rewritten with the real Swap* (results of the same length, longer, shorter, halved, empty); the trace '
                    'specification binds sections, full and per-block reads. Thorough: all 220 k sequences of 3 writes.',
            'note': _NOTE + ' Values are compared by a digest of their exact bytes computed by the harness.',
            'technique': _T + '; TLC-generated operation sequences replayed into the implementation'},
    'C06': {'text': 'Converged is model-checked for 2 writers x <=2 operations + replica, every interleaving at the commit-protocol '
                    'actions, both transports, strict and as-built. On the real code: sequential histories, random schedules and '
                    'depth-first enumerated schedules of the controlled scheduler; the recorded commits are replayed on a real replica '
                    'through a real commit.Channel or commit.Log file and both projections are compared by the trace specification.',
            'note': _NOTE, 'technique': _T},
    'C07': {'text': 'Snapshot (block images) and Restore (one committed transaction per block, then the recorded commits that pass the '
                    'id filter) are actions of the specification; MC_Snap checks that the restored collection equals the primary block by '
                    'block. Histories with up to 3 snapshot -> restore -> continue cycles over all kinds, indexes, sorted index, keys, '
                    '0-3 blocks and all capacities are validated: every block-commit of the restoring collection (seen by its logger) '
                    'must be the image the specification computed, the restored collection is dumped and the history continues on it. Timed scenarios '
                    '(exp/c07, ExpireTrace.tla): rows with a time-to-live are restored while the real vacuum runs; the restored collection must '
                    'drop each of them after the deadline it inherited and keep the others.',
            'note': _NOTE, 'technique': _T},
    'C08': {'text': 'ConsistentCut (each restored block equals the primary block after a prefix of the commits applied to it, between '
                    'those applied when the snapshot began and when it returned) is model-checked for 2 writers beside a snapshot at '
                    'every interleaving of the commit and snapshot protocols (quick: 1 operation each, thorough: 2; 27.6 M states). '
                    'Controlled schedules (random with long preemptions, and depth-first enumeration) park the real snapshot at '
                    'snap.opened / snap.block / snap.closing / snap.copying beside 2-4 writers; the snapshot is restored and every '
                    'block image and replayed commit is bound to the specification. Real parallelism (par/c08): 4-6 goroutines commit merges and puts into one block '
                    'beside a goroutine taking a snapshot; each block image is logged from inside its read latch by a probe column of the harness (the library calls '
                    'Snapshot on every column there), commits by the in-latch logger; the restored file is validated the same way.',
            'note': _NOTE, 'technique': _T},
    'C09': {'text': 'Merges are applied inside Apply (one action under the block latch); ReadBack against the per-row fold in apply '
                    'order is model-checked for 2 concurrent writers; controlled schedules of 2-4 writers merging (additive and '
                    'order-sensitive affine merge, string concat, all numeric types, records) into overlapping rows are validated: '
                    'every in-latch logger event must carry the absolute value the specification computes from the apply order (in half of the scenarios the real values and deltas '
                    'are the model\'s multiplied by 2^33+1 - beyond 32 bits - which the additive merge carries through unchanged); some transactions give up '
                    '(their merges are applied by nobody). A second family (par/c09) '
                    'runs 4-6 goroutines in real parallelism (no scheduler; user merge functions that take tens of microseconds) merging numbers, records and '
                    'strings into rows of 2-3 blocks: commits into different blocks overlap inside Apply; the in-latch logger gives the apply order per block.',
            'note': _NOTE, 'technique': _T},
    'C10': {'text': 'Latch.tla models writer and reader at single-column grain: NoTornRead and Exclusion hold with the read latch and '
                    'TLC finds a torn read without it (negative control run on every check); LatchInd.tla: an inductive invariant discharged with Apalache '
                    'shows NoTornRead for any number of versions (negative control: RLock without its guard). On the real code, 16-core stress: writers '
                    'keep (a, b, s) = (k, 2k, "v"k) across three columns of different kinds (also two rows of different blocks in one '
                    'transaction), together with a bool f = (k is odd) that is bound into the witness, while the collection grows by a block every few tens of milliseconds; readers (QueryAt, Range, filtered Range, point reads nested inside a Range over another block) report the distinct triples read inside one callback (millions '
                    'of reads per run), each must be a committed version (Ascend readers too: as built they run without the latch and do see torn rows - '
                    'known finding D-ascend-no-latch, excused exactly for them); deterministic probes: with a writer parked inside the logger '
                    'callback a reader of that block must not complete, a reader of another block must; after a merge function has panicked between '
                    'two columns of a commit (caller recovers) a reader either does not get in or sees the committed version.',
            'note': _NOTE + ' The torn-read search is statistical (real parallelism); the probes are deterministic.',
            'technique': _T + '; Apalache (inductive invariant of the latch protocol)'},
    'C11': {'text': 'NoCollision, OccupiedIsLive, FillAccounting, NoStaleValues are model-checked for 2 concurrent writers inserting '
                    'and deleting over 3 offsets in 2 blocks; on the real code every offset an insert returns must be free in the '
                    'model (sequential histories over fragmented fill patterns across word and block boundaries, all capacities; '
                    'controlled schedules of concurrent inserters/deleters); reused offsets must read back absent in every column and in every bitmap index '
                    '(the re-inserting row often leaves the indexed column unset).',
            'note': _NOTE, 'technique': _T},
    'C12': {'text': 'KeyCoherent (the key table is a bijection between keys and the live rows carrying them) is model-checked for 2 '
                    'concurrent transactions running InsertKey / UpsertKey / DeleteKey step by step (lookup, reserve, key write, return) '
                    'over 2 keys; KeyCheck / KeyEnd bind every real key call to its contract (fails iff ...). Sequential histories over 4 '
                    'keys with several key operations per transaction, rollbacks, re-keying; controlled schedules parked between lookup '
                    'and insert (key.checked); every dump probes every key of the alphabet (which includes the empty string) with QueryKey.',
            'note': _NOTE, 'technique': _T},
    'C13': {'text': 'Restore from a truncated file is the same action sequence that may stop early: RestoreEnd accepts success only if '
                    'every block image has been applied and the replayed commits are a prefix of the recorded ones; what was applied is '
                    'bound item by item (whole items only). Snapshots with 0-3 commits recorded beside them and commit log files of the '
                    'primary are cut at every s2 frame boundary +-2 and a random sample (quick) / every byte (thorough); each prefix is '
                    'restored / ranged over into a fresh collection under a watchdog; panics and hangs are events no action explains. Two-block '
                    'snapshots of several MB (blocks of 1.2 and of 2.7 MB, so that a compression frame ends exactly on a block end) are cut at every '
                    'frame boundary +-2 and the applied blocks / commits are bound by PrefixTrace.tla (the intact file must restore to the block images '
                    'followed by exactly the commits the source made meanwhile, one item per commit - digested on the source side as well).',
            'note': _NOTE + ' The exhaustive part covers the untruncated protocol (MC_Snap); truncation points are enumerated on the real bytes.',
            'technique': _T + '; fault enumeration over byte offsets'},
    'C14': {'text': 'SnapFail (from any point of the snapshot protocol) must leave the recorder detached (RecorderClean, model-checked with '
                    'retries beside 2 writers) and the collection usable. On the real code the destination fails at every write-call '
                    'index (fail-once and fail-forever) and at byte budgets (sample in quick, all in thorough); each failure must be '
                    'reported, then a commit, a healthy snapshot and its restore are validated, descriptors (after forced GCs) and '
                    'recorder temp files must be back at the baseline; two overlapping snapshots; hundreds of repeated failures.',
            'note': _NOTE, 'technique': _T + '; fault enumeration over write calls and byte budgets'},
    'C15': {'text': 'StreamIds (distinct, non-zero, increasing per block in emission order) is model-checked under all interleavings '
                    'of 2 writers; in validated executions every in-latch logger event is bound to exactly one Apply action of a dirty '
                    'block of a committing transaction (rolled-back / empty transactions have no Apply), the id must exceed the '
                    'block\'s last id, and the id delivered by a real commit.Channel must equal the id the store drew; half of the concurrent '
                    'scenarios run beside a snapshot that records the same commits.',
            'note': _NOTE, 'technique': _T},
    'C16': {'text': 'SortCoherent is an invariant (model-checked with a sorted index over a string column); every dump logs the Ascend '
                    'sequence with the value read at each stop: it must be a permutation of the rows holding a value, non-decreasing '
                    'in the specification\'s own lexicographic order (every dump also iterates over a narrow selection - the rows whose value in another column equals k). MC_Schema model-checks a sorted index created after the data (back-fill) between two '
                    'transactions; the sorted column may be dropped (the index is then detached) and re-created; merges with and without a '
                    'user merge function.',
            'note': _NOTE, 'technique': _T},
    'C17': {'text': 'Expire.tla: NoEarlyExpiry (action property), ExpiredGoes (liveness under weak fairness of tick, scan and commit, no '
                    'state constraint) and NoTTLStays are model-checked for 2-3 rows with an extender, strict and as-built. Timed '
                    'executions of the real vacuum (intervals 1/5/50 ms; rows without TTL, short, long and extended TTLs, in the first block or straddling the first block boundary; inserts, '
                    'extensions and unrelated updates meanwhile; a restored snapshot and a replica with their own vacuum) are validated: '
                    'every removal needs a passed deadline at the in-latch timestamp, rows overdue by more than the slack must be gone, rows '
                    'not due must be there, Extend moves the deadline by exactly its argument (also when the deadline was set by the same transaction or '
                    'insert), a zero time-to-live (set or cleared) is no deadline, a Set buffers the deadline (time of the call + ttl) - also through an accessor obtained tens of milliseconds earlier - and copies '
                    'carry the same deadlines.',
            'note': _NOTE + ' Wall-clock based: the slack is 10 intervals + 3 s.', 'technique': _T},
    'C18': {'text': 'Locks.tla lists for every code path the locks held around each access to each shared variable (Go RWMutex writer '
                    'preference included); TLC checks deadlock freedom and the lockset invariant NoRace for 5-6 concurrent paths, with the '
                    'four variables the as-built protocol leaves unordered excused (and fails without the excuse: negative control); '
                    'termination under fairness on 3 paths (thorough). The stress workload (three full blocks from the start, growth across blocks, offset reuse, record and string '
                    'merges with user merge functions in several blocks at once, snapshots, '
                    'restores, index builds and drops, keyed upserts, aborted inserting transactions, failing inserts, Ascend, a replica, readers and writers) runs under the race detector with a '
                    'watchdog, followed by staged schedules of a commit beside growth of the collection in both orders (growth before the apply, with and without a snapshot; growth after the apply, '
                    'where only the column lock orders the two); every report and every panic is mapped to a model variable and judged by LocksTrace.tla.',
            'note': 'The race detector explores, the specification classifies: this is the property where the technique contributes least (TLA+ '
                    'cannot observe memory accesses). Trusted: the function table of bin/racemap.py; a report with both sides inside the library on memory '
                    'the table does not name is a violation (variable "unmapped"), and so is growth against a commit\'s Apply (both hold the column lock in the model; only growth beside point readers is the listed finding).',
            'technique': 'TLA+ lock-protocol model checked with TLC (deadlock, lockset); race-detector exploration of the implementation classified by the model'},
    'C19': {'text': 'The specification computes, per Apply, the trigger calls (per trigger and row, in issue order, final values, one '
                    'per deleted row); the real trigger callbacks recorded between two in-latch logger events must equal them; '
                    'rollbacks must come with no callback. Triggers are created and dropped mid-history (MC_Schema: exhaustively between two '
                    'transactions), their source column may be dropped (detached trigger: deletions only); in half of the scenarios hidden one-shot triggers, unknown to the specification, drop themselves from inside a commit ahead of the recorded ones.',
            'note': _NOTE, 'technique': _T},
}

NOT_APPLICABLE = {}
