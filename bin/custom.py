"""Property-specific drivers and the replay entry point of bin/check."""
import json, os, shutil, tempfile


def replay(ck, pid, path):
    """Re-validates the recorded trace of a replay file against the current specification, and re-runs
    the scenario (same family / profile / seed) on the current tree."""
    r = json.load(open(path))
    scratch = tempfile.mkdtemp(prefix='replay-', dir='/tmp')
    try:
        ev = {'mc': [], 'families': [], 'tlc_trace_runs': []}
        from props import PROPS
        prop = PROPS[pid or r['property']]
        rej, validated, devs = ck.validate(scratch, prop['trace'], [r['trace']], ck.known_devs(), ev)
        if rej:
            ck.log('recorded trace: rejected at line %d: %s' % (rej[0]['line_in_trace'], rej[0]['why']))
            ck.log('  ' + rej[0]['event'][:400])
        else:
            ck.log('recorded trace: accepted by the current specification')
        m = __import__('re').match(r'(\w+)-(\w+)-(\d+)\.ndjson', r['scenario'])
        if m:
            vh = ck.build_harness(scratch)
            out = os.path.join(scratch, 'rerun')
            rc, txt = ck.run([vh, '-family', m.group(1), '-profile', m.group(2), '-one', m.group(3), '-out', out], 600)
            files = [os.path.join(out, f) for f in sorted(os.listdir(out))] if os.path.isdir(out) else []
            if files:
                rej2, _, _ = ck.validate(scratch, prop['trace'], files, ck.known_devs(), ev)
                if rej2:
                    ck.log('re-run on the current tree: rejected at line %d: %s' % (rej2[0]['line_in_trace'], rej2[0]['why']))
                    ck.log('VIOLATION property=%s replay=%s' % (pid or r['property'], path))
                    return 1
                ck.log('re-run on the current tree: accepted')
        return 1 if rej else 0
    finally:
        shutil.rmtree(scratch, ignore_errors=True)


def c18(ck, scratch, vh, prop, tier, seed, ev):
    """C18: stress workload under the race detector; reports are mapped to variables of spec/Locks.tla
    (bin/racemap.py) and judged by spec/LocksTrace.tla."""
    import glob, json, subprocess, time, collections
    import racemap
    runs = 2 if tier == 'quick' else 4
    profile = 'short' if tier == 'quick' else 'long'
    files = []
    known = ck.known_devs()
    plan = [(profile, i) for i in range(runs)] + [('grow', runs)]   # the last one: a commit beside growth, both stalled at their latches
    for profile, i in plan:
        out = os.path.join(scratch, 'traces', 'race-%d' % i)
        logs = os.path.join(scratch, 'racelogs-%d' % i)
        os.makedirs(out, exist_ok=True)
        os.makedirs(logs, exist_ok=True)
        t0 = time.time()
        env = dict(os.environ, GORACE='log_path=%s/race halt_on_error=0 history_size=3' % logs, TMPDIR=os.path.join(scratch, 'jtmp'))
        rc, txt = ck.run([vh, '-family', 'race', '-profile', profile, '-seed', str(seed * 100 + i), '-out', out], 600, env=env)
        traces = sorted(glob.glob(os.path.join(out, '*.ndjson')))
        if not traces:
            raise ck.MachineryError('race workload produced no trace (rc %d):\n%s' % (rc, txt[-2000:]))
        text = ''.join(open(f, errors='replace').read() for f in glob.glob(os.path.join(logs, 'race*')))
        verdicts = collections.OrderedDict()
        unclassified = collections.Counter()
        nrep = 0
        blocks = racemap.reports(text)
        events = []
        for l in open(traces[0]):
            e = json.loads(l)
            if e.get('e') == 'crash':
                st = e.get('stack', '').split('panic(')[-1]
                blocks.append('WARNING: DATA RACE\nWrite at crash:\n' + st + '\n\nPrevious read at crash:\n' + st)
            else:
                events.append(e)
        for b in blocks:
            nrep += 1
            kind, v, fns = racemap.verdict(b, {'registry', 'colList', 'data', 'idxFill'})
            short = tuple(sorted(str(f).replace('github.com/kelindar/column', '') for f in fns))
            if kind == 'unclassified':
                unclassified[short] += 1
                if all(f and f.startswith('github.com/kelindar/column') for f in fns) and len(fns) == 2:
                    # both sides are inside the library, on memory the function table does not name: a race all the same
                    # (every accessor of the known racy variables is in the table), judged as a variable nothing excuses
                    kind, v = 'violation', 'unmapped'
                else:
                    continue
            key = (kind, v)
            if key not in verdicts:
                verdicts[key] = {'n': 0, 'fns': set()}
            verdicts[key]['n'] += 1
            verdicts[key]['fns'].add(short)
        final = list(events)
        for (kind, v), d in verdicts.items():
            final.append({'e': 'race', 'v': v, 'kind': kind, 'n': d['n'], 'fns': [list(x) for x in sorted(d['fns'])][:6]})
        with open(traces[0], 'w') as f:
            for e in final:
                f.write(json.dumps(e) + '\n')
        files.append(traces[0])
        ck.log('  [G] race workload %d: %d reports/crashes in %.1fs: %s; unclassified %d' % (
            i, nrep, time.time() - t0, ', '.join('%s:%s x%d' % (k[0], k[1], d['n']) for k, d in verdicts.items()), sum(unclassified.values())))
        ev['families'].append({'family': 'race', 'profile': profile, 'reports': nrep,
                               'by_variable': {('%s:%s' % k): d['n'] for k, d in verdicts.items()},
                               'unclassified_pairs': [[list(k), n] for k, n in unclassified.most_common(10)]})
    rejections, validated, devs = ck.validate(scratch, prop['trace'], files, known, ev, groups=1)
    if (tier == 'thorough' or os.environ.get('VERIF_DEBUG_CONTROLS')) and not rejections:
        ck.small_controls(scratch, prop['trace'], files, known, ev)
    classes = set()
    total = 0
    for fm in ev['families']:
        total += fm.get('reports', 0)
    for f in files:
        for l in open(f):
            e = json.loads(l)
            if e.get('e') == 'race':
                for fn in e.get('fns', []):
                    classes.add((e['v'], tuple(fn)))
    ev['override'] = {'evaluations': total + len(files), 'distinct_nontrivial': len(classes),
                      'rule': 'C18: evaluations = race-detector reports and recorded panics of the stress workloads (plus the workloads themselves); '
                              'distinct_nontrivial = distinct (model variable, pair of innermost library functions) classes among them. '}
    return files, rejections, validated, devs
