"""Property-specific drivers and the replay entry point of bin/check."""
import json, os, shutil, tempfile


def replay(ck, pid, path):
    """Re-validates the recorded trace of a replay file against the current specification, and re-runs
    the scenario (same family / profile / seed) on the current tree."""
    r = json.load(open(path))
    scratch = tempfile.mkdtemp(prefix='replay-', dir='/tmp')
    try:
        ev = {'mc': [], 'families': [], 'tlc_trace_runs': []}
        from props import PROPS
        prop = PROPS[pid or r['property']]
        rej, validated, devs = ck.validate(scratch, prop['trace'], [r['trace']], ck.known_devs(), ev)
        if rej:
            ck.log('recorded trace: rejected at line %d: %s' % (rej[0]['line_in_trace'], rej[0]['why']))
            ck.log('  ' + rej[0]['event'][:400])
        else:
            ck.log('recorded trace: accepted by the current specification')
        m = __import__('re').match(r'(\w+)-(\w+)-(\d+)\.ndjson', r['scenario'])
        if m:
            vh = ck.build_harness(scratch)
            out = os.path.join(scratch, 'rerun')
            rc, txt = ck.run([vh, '-family', m.group(1), '-profile', m.group(2), '-one', m.group(3), '-out', out], 600)
            files = [os.path.join(out, f) for f in sorted(os.listdir(out))] if os.path.isdir(out) else []
            if files:
                rej2, _, _ = ck.validate(scratch, prop['trace'], files, ck.known_devs(), ev)
                if rej2:
                    ck.log('re-run on the current tree: rejected at line %d: %s' % (rej2[0]['line_in_trace'], rej2[0]['why']))
                    ck.log('VIOLATION property=%s replay=%s' % (pid or r['property'], path))
                    return 1
                ck.log('re-run on the current tree: accepted')
        return 1 if rej else 0
    finally:
        shutil.rmtree(scratch, ignore_errors=True)
