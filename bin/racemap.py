"""Maps race-detector reports and crash stacks of the C18 stress workload to the shared variables of
spec/Locks.tla (the function -> model access table of DESIGN.md section 7/C18)."""
import re

LIB = 'github.com/kelindar/column'

# innermost library function of a stack -> the shared variable it accesses (ordered: first match wins).
# A report is attributed to a variable if BOTH of its stacks map to the same variable, or one maps to a
# variable and the other to an accessor that can touch it (ANY).
TABLE = [
    # the column registry: entry slice replaced / mutated in place beside lock-free loads
    (r'\(\*columns\)\.(Store|DeleteIndex|DeleteColumn|Load|LoadWithIndex|Range|RangeUntil|Count)$', 'registry'),
    (r'\(\*Collection\)\.(CreateIndex|CreateSortIndex|DropIndex|CreateTrigger|DropTrigger|CreateColumn|DropColumn)$', 'registry'),
    (r'\(\*Txn\)\.(columnAt|commitUpdates)$', 'registry'),
    (r'\(\*Txn\)\.commitUpdates\.func\d+$', 'registry'),
    (r'\(\*Txn\)\.commitMarkers\.func\d+(\.\d+)?$', 'registry'),
    (r'\(\*Collection\)\.writeState\.func\d+(\.\d+)*$', 'registry'),
    # the bitmap of a bitmap index (back-fill by CreateIndex beside commits; readers of the index)
    (r'\(\*columnIndex\)\.(Apply|Grow|Index|Contains|Value|Snapshot)$', 'idxFill'),
    # the chunk list of a data column during growth (append under the column lock, indexed without)
    (r'chunks\[.*\]\)\.Grow$', 'colList'),
    (r'\(\*chunks\[.*\]\)\.Grow$', 'colList'),
    (r'chunks\[.*\]\.(chunkAt|Index)$', 'colList'),
    (r'\(\*columnBool\)\.(Grow)$', 'colList'),
    # chunk data / presence: written by Apply under the block latch, read by CreateIndex's back-fill with no latch
    (r'\(\*numericColumn\[.*\]\)\.(Apply|Snapshot|load|Value|Contains|LoadInt64|LoadUint64|LoadFloat64|FilterInt64|FilterUint64|FilterFloat64)$', 'data'),
    (r'\(\*numericColumn\[.*\]\)\.Snapshot\.func\d+$', 'data'),
    (r'make\w+s\.func\d+$', 'data'),
    (r'filterNumbers\[.*\](\.func\d+)?$', 'data'),
    (r'\(\*column(String|Enum|Key|Record)\)\.(Apply|Snapshot|LoadString|Value|Contains|FilterString|findOrAdd|readAt)$', 'data'),
    (r'\(\*column(String|Enum|Key|Record)\)\.(Snapshot|FilterString)\.func\d+$', 'data'),
    (r'\(\*columnBool\)\.(Apply|Value|Contains|Index|Snapshot)$', 'data'),
    (r'rdNumber\[.*\]\)?\.(Get|Sum|Avg|Min|Max|present)(\.func\d+)?$', 'data'),
    (r'readNumber\[.*\]$', 'data'),
]


# accessors of variables that the lock protocol of spec/Locks.tla protects (no race is acceptable on them)
PROTECTED = [
    (r'\(\*Collection\)\.(next|free|findFreeIndex|chunks|readChunk|Count)$', 'fill'),
    (r'\(\*Collection\)\.readChunk\.func\d+$', 'fill'),
    (r'\(\*Txn\)\.(initialize|rollback|commitMarkers|insert)$', 'fill'),
    (r'\(\*Txn\)\.commitMarkers\.func1$', 'fill'),
    (r'\(\*Txn\)\.(rangeWrite|commitCapacity)(\.func\d+)?$', 'commits'),
    (r'\(\*columnKey\)\.(OffsetOf)$', 'seek'),
    (r'rwKey\.(Set|Get)$', 'seek'),
    (r'\(\*columnSortIndex\)\.Apply$', 'tree'),
    (r'\(\*Txn\)\.Ascend(\.func\d+)?$', 'tree'),
    (r'\(\*Collection\)\.(isSnapshotting|recorderOpen|recorderClose|Snapshot)$', 'recorder'),
    (r'commit\.\(\*Log\)\.(Append|Copy|Range|Close)$', 'recorder'),
    (r'commit\.Next$', 'commitid'),
]


def protected_of(fn):
    if fn is None:
        return None
    short = fn[len(LIB) + 1:] if fn.startswith(LIB + '.') else fn[len('github.com/kelindar/column/'):] if fn.startswith('github.com/kelindar/column/') else fn
    for pat, var in PROTECTED:
        if re.search(pat, short):
            return var
    return None


def verdict(block, known_racy):
    """('known', var) | ('violation', var) | ('unclassified', fns) for one race report or crash stack."""
    v, fns = classify_report(block)
    prot = [p for p in (protected_of(f) for f in fns) if p]
    if 'colList' in [v] + [variable_of(f) for f in fns] and re.search(r'\(\*column\)\.Apply\b', block) and re.search(r'\)\.Grow\b', block):
        # growth against a commit's Apply: both sides hold the column lock in Locks.tla (write / read), so this pair is
        # not the known finding (growth beside point readers, which take no column lock) and nothing excuses it
        return 'violation', 'colListUnderColumnLock', fns
    if v is not None:
        if v in known_racy:
            return 'known', v, fns
        return 'violation', v, fns
    # one side on a known racy variable, the other not mapped: still that variable
    vs = [x for x in (variable_of(f) for f in fns) if x]
    if vs and not prot:
        order = ['registry', 'colList', 'idxFill', 'data']
        x = min(vs, key=order.index)
        return ('known' if x in known_racy else 'violation'), x, fns
    if prot:
        return 'violation', prot[0], fns
    return 'unclassified', None, fns


def frames(stack_text):
    """function names of a stack, innermost first"""
    out = []
    for line in stack_text.split('\n'):
        line = line.strip()
        m = re.match(r'^([\w./\-\[\]\*\(\)·,{} ]+?)\((?:0x[0-9a-f, .?]*|\.\.\.)?\)?$', line)
        if line.startswith(LIB) or line.startswith('github.com/kelindar/'):
            out.append(re.sub(r'\(.*$', '', line) if not line.endswith('()') else line[:-2])
    return out


def innermost_lib(stack_text):
    for line in stack_text.split('\n'):
        line = line.strip()
        if line.startswith(LIB + '.') or line.startswith(LIB + '/commit.'):
            fn = line
            fn = re.sub(r'\(0x[0-9a-f?, x.]*\)$', '', fn)   # panic stacks carry arguments
            fn = re.sub(r'\(\)$', '', fn)                   # race reports end in ()
            fn = re.sub(r'\(\.\.\.\)$', '', fn)
            return fn
    return None


def variable_of(fn):
    if fn is None:
        return None
    short = fn[len(LIB) + 1:] if fn.startswith(LIB + '.') else fn
    for pat, var in TABLE:
        if re.search(pat, short):
            return var
    return None


def classify_report(block):
    """block: text of one WARNING: DATA RACE report. Returns (variable or None, [fn1, fn2])."""
    stacks = [p for p in re.split(r'\n\s*\n', block)
              if re.search(r'(?:^|\n)\s*(?:Previous )?(?:[Rr]ead|[Ww]rite|[Aa]tomic (?:read|write)) (?:at|of)', p)]
    fns = [innermost_lib(s) for s in stacks[:2]]
    vars_ = [variable_of(f) for f in fns]
    v = None
    order = ['registry', 'colList', 'idxFill', 'data']
    if len(vars_) == 2 and vars_[0] and vars_[1]:
        # the same variable on both sides, or two related ones (the registry's entries point at the columns, growth
        # replaces the chunk list the data lives in): attribute to the coarser one
        v = min(vars_, key=order.index)
    return v, fns


def reports(text):
    return [b for b in text.split('==================') if 'WARNING: DATA RACE' in b]
