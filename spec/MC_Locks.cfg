SPECIFICATION Spec
CONSTANTS
  Threads = @THREADS@
  Prog <- ProgAll
  KnownRacy = @RACY@
INVARIANTS NoRace
@PROPS@
