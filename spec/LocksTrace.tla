---------------------------- MODULE LocksTrace ----------------------------
(***************************************************************************)
(* C18: the stress workload runs under Go's race detector; every report (and *)
(* every panic of the library under concurrent use) is mapped by the        *)
(* function table of bin/racemap.py to a shared variable of Locks.tla.  A   *)
(* variable the as-built lock protocol leaves unordered (KnownRacy, the     *)
(* same constant MC_Locks is checked with) is a known finding; a report on  *)
(* a variable the protocol orders means the code does not follow the        *)
(* specification.  The workload must terminate (deadlock freedom).          *)
(***************************************************************************)
EXTENDS Integers, Sequences, FiniteSets, TLC, Json, IOUtils, TLCExt
CONSTANTS Known, KnownRacy
TraceLog == ndJsonDeserialize(IOEnv.TRACE)
VARIABLES l, dev
tvars == <<l, dev>>
Ev == TraceLog[l]
Is(e) == l <= Len(TraceLog) /\ Ev.e = e /\ l' = l + 1
TInit == l = 2 /\ dev = {}
TReset == Is("reset") /\ dev' = {}
\* the workload ended by itself (or was stopped after a recorded panic)
TStress == Is("stress") /\ UNCHANGED dev
\* a race report / crash attributed to variable Ev.v
TRace == Is("race") /\ Ev.v \in KnownRacy /\ ("D-race-" \o Ev.v) \in Known /\ dev' = dev \cup {"D-race-" \o Ev.v}
TNext == TReset \/ TStress \/ TRace
TSpec == TInit /\ [][TNext]_tvars
Record == TLCSet(1, <<IF l > TLCGet(1)[1] THEN l ELSE TLCGet(1)[1], TLCGet(1)[2] \cup dev>>)
ASSUME TLCSet(1, <<0, {}>>)
Accepted == /\ PrintT(<<"DEV", TLCGet(1)[2]>>)
            /\ PrintT(<<"MATCHED", TLCGet(1)[1] - 1, Len(TraceLog)>>)
            /\ TLCGet(1)[1] - 1 = Len(TraceLog)
Diag == <<"event", Ev>>
=============================================================================
