------------------------------- MODULE Column -------------------------------
(***************************************************************************)
(* Specification of kelindar/column: collections of rows at offsets, typed  *)
(* columns with presence, computed columns (bitmap indexes, sorted indexes, *)
(* triggers), the primary-key table, transactions with delta buffers, the    *)
(* per-block commit protocol, the change stream and its replay, snapshot    *)
(* and restore.                                                             *)
(*                                                                          *)
(* One action per critical section of the Go code (see DESIGN.md app. A).   *)
(* Where the code is known to deviate from the listed properties the        *)
(* deviation is a named branch enabled by the constant Known; with          *)
(* Known = {} this is the strict specification.                             *)
(***************************************************************************)
EXTENDS Integers, Sequences, FiniteSets, TLC, TLCExt, SequencesExt, FiniteSetsExt

CONSTANTS Colls,      \* names of collections
          Actors,     \* names of actors (each runs transactions, one at a time)
          Offsets,    \* finite set of naturals: the individually tracked row offsets
          BlockSize,  \* rows per block (16384 in the code)
          Known,      \* set of deviation names that are accepted (as-built behaviour)
          History,    \* BOOLEAN: keep, per block, the sequence of block states after every commit (for C08's cut invariant)
          Guard       \* BOOLEAN: invariants are excused by the deviations taken (FALSE only in negative controls)

VARIABLES st,    \* st[c]: the state of collection c (record, see EmptyStore)
          txn,   \* txn[t]: the transaction of actor t
          used,  \* commit ids drawn so far
          files, \* snapshot files (name -> content)
          dev    \* deviations taken so far (history)
vars == <<st, txn, used, files, dev>>

None == "none"
BlockOf(o) == o \div BlockSize
SeqToSet(s) == {s[i] : i \in DOMAIN s}
Modes(d) == {"strict"} \cup (IF d \in Known THEN {"asbuilt"} ELSE {})
EmptyFn == <<>>                    \* the function with empty domain
MaxOf(S) == CHOOSE x \in S : \A y \in S : y <= x
MinOf(S) == CHOOSE x \in S : \A y \in S : x <= y

-----------------------------------------------------------------------------
(* Values.  A data column has a kind and a merge function:                  *)
(*   int  : integers;          merge add | affine | sat | replace           *)
(*   str  : sequences of small integers (bytes); merge replace | concat     *)
(*   tok  : opaque tokens (TLC strings), put only                           *)
(*   enum : tokens, put only, interned by a 32-bit hash in the code         *)
(*   bool : TRUE / FALSE, FALSE is stored as "absent"                       *)
(*   key  : the primary key column, tokens, put only                        *)

Zero(desc) == CASE desc.k = "int"  -> 0
                [] desc.k = "str"  -> <<>>
                [] desc.k = "bool" -> FALSE
                [] OTHER           -> ""

MergeFn(m, a, d) == CASE m = "add"     -> a + d
                      [] m = "affine"  -> 2 * a + d
                      [] m = "sat"     -> IF a + d > 8 THEN 8 ELSE a + d     \* saturating counter (has fixed points)
                      [] m = "concat"  -> a \o d
                      [] OTHER         -> d          \* "replace"

\* two enum strings with the same 32-bit xxh3 hash (found by a birthday search over "k<i>")
Collide == {"k9870", "k53003"}

\* index predicates: [f |-> "ge"|"lt"|"eq"|"true", a |-> argument]
Pred(p, v) == CASE p.f = "ge"   -> v >= p.a
                [] p.f = "lt"   -> v < p.a
                [] p.f = "eq"   -> v = p.a
                [] p.f = "false" -> v = FALSE
                [] OTHER        -> v = TRUE

\* lexicographic order on sequences of integers (Go's string order on bytes)
SeqLeq(a, b) ==
  LET n == IF Len(a) < Len(b) THEN Len(a) ELSE Len(b)
      d == {i \in 1..n : a[i] # b[i]}
  IN IF d = {} THEN Len(a) <= Len(b) ELSE a[MinOf(d)] < b[MinOf(d)]

\* Folds are written with FoldLeft (evaluated eagerly by TLC's Java override): recursive operators that thread an
\* accumulator through LET definitions were re-evaluated exponentially often by TLC.
-----------------------------------------------------------------------------
(* The state of one collection.                                             *)

EmptyStore ==
  [ fill   |-> {},      \* tracked offsets that are occupied: live rows and reservations
    live   |-> {},      \* (ghost) tracked offsets holding a committed row
    filler |-> {},      \* set of <<lo, hi>>: maximal runs of live rows that carry no value and are never addressed individually
    reg    |-> EmptyFn, \* data columns: name -> [k, m]
    has    |-> EmptyFn, \* name -> set of offsets holding a value
    data   |-> EmptyFn, \* name -> [Offsets -> value]   (kept when presence is cleared, as in the code)
    ix     |-> EmptyFn, \* bitmap indexes: name -> [col, p, set]
    sx     |-> EmptyFn, \* sorted indexes: name -> [col, items]   items = set of <<value, offset>>
    tg     |-> EmptyFn, \* triggers: name -> [col]
    seek   |-> {},      \* key table: set of <<key, offset>>
    canon  |-> EmptyFn, \* enum columns: name -> first string stored among the colliding ones (<<>> if none yet)
    lastId |-> <<>>,    \* lastId[b+1]: id of the last commit applied to block b
    rec    |-> [open |-> FALSE, log |-> <<>>],  \* snapshot recorder
    wl     |-> {},      \* write latches held: set of <<block, actor>>
    strm   |-> <<>>,    \* commits handed to the logger, in order
    tp     |-> "log",   \* transport of the logger: "chan" (clone of all buffers) or "log" (committed block only)
    rp     |-> 0,       \* number of commits of the source stream replayed here (replicas)
    ap     |-> <<>>,    \* (history, only if History) ap[b+1]: block b's state after each commit applied to it
    gt     |-> EmptyFn ]\* (ghost) name -> [Offsets -> <<has, value>>]: what the committed history says each row holds,
                        \* computed row by row, independently of the buffer machinery (C01)

KeyCol(S) == IF \E n \in DOMAIN S.reg : S.reg[n].k = "key"
             THEN CHOOSE n \in DOMAIN S.reg : S.reg[n].k = "key" ELSE None

FillerSize(F) == FoldLeft(LAMBDA acc, x : acc + (x[2] - x[1] + 1), 0, SetToSeq(F))
InFiller(F, o) == \E x \in F : x[1] <= o /\ o <= x[2]
CountOf(S) == Cardinality(S.fill) + FillerSize(S.filler)
NBlocks(S) == Len(S.lastId)

\* ---- runs of value-less rows
BlocksOf(lo, hi) == BlockOf(lo)..BlockOf(hi)
Clip(lo, hi, b) == <<IF lo > b * BlockSize THEN lo ELSE b * BlockSize,
                     IF hi < (b + 1) * BlockSize - 1 THEN hi ELSE (b + 1) * BlockSize - 1>>

\* insert the run, merging with adjacent runs so that runs stay maximal
AddRun(F, lo, hi) ==
  LET left  == {x \in F : x[2] = lo - 1}
      right == {x \in F : x[1] = hi + 1}
      nlo == IF left = {} THEN lo ELSE (CHOOSE x \in left : TRUE)[1]
      nhi == IF right = {} THEN hi ELSE (CHOOSE x \in right : TRUE)[2]
  IN (F \ (left \cup right)) \cup {<<nlo, nhi>>}
\* remove lo..hi from the runs (the range lies inside one run)
CutRun(F, lo, hi) ==
  LET x == CHOOSE x \in F : x[1] <= lo /\ hi <= x[2] IN
  (F \ {x}) \cup (IF x[1] < lo THEN {<<x[1], lo - 1>>} ELSE {}) \cup (IF hi < x[2] THEN {<<hi + 1, x[2]>>} ELSE {})


\* grow the per-block arrays so that block b exists (commitCapacity)
Grow(S, b) == IF b < NBlocks(S) THEN S
              ELSE [S EXCEPT !.lastId = @ \o [i \in 1..(b + 1 - Len(@)) |-> 0]]

-----------------------------------------------------------------------------
(* Operations in delta buffers: [k, o, v, x]                                *)
(*   k: ins | del (row buffer) ; put | mrg | skip (column buffers)          *)
(*   x: (ghost) the operation belongs to an insert whose callback failed    *)

Op(k, o, v) == [k |-> k, o |-> o, v |-> v, x |-> FALSE]
Plain(e) == [k |-> e.k, o |-> e.o, v |-> e.v]
PlainSeq(s) == [i \in DOMAIN s |-> Plain(s[i])]
OpsOfBlock(ops, b) == SelectSeq(ops, LAMBDA e : BlockOf(e.o) = b)
NoSkip(ops) == SelectSeq(ops, LAMBDA e : e.k # "skip")
OfOffset(ops, o) == SelectSeq(ops, LAMBDA e : e.o = o)
BufOps(bufs, n) == IF n \in DOMAIN bufs THEN bufs[n] ELSE <<>>

\* replace, in a buffer, the ops of block b by their rewritten form (positions kept), then append the tail
Rewrite(ops, b, rw) ==
  [i \in DOMAIN ops |-> IF BlockOf(ops[i].o) = b THEN rw[Cardinality({j \in 1..i : BlockOf(ops[j].o) = b})] ELSE ops[i]]

-----------------------------------------------------------------------------
(* Applying one block of a transaction (everything under the write latch).  *)
(* F is the set of as-built behaviours in force:                            *)
(*   "dead-delete"     a delete marker for an offset that is not live is processed anyway *)
(*   "write-dead"      a column write to an offset that is not live after the markers is applied *)
(*   "failed-applied"  markers and writes of an insert whose callback failed are applied *)
(*   "stale-merge"     a merge into an absent value starts from the value left behind *)
(*   "swap-append"     a string merge whose result has another length is re-issued at the end of the buffer *)
(*   "stale-unkey"     deleting a row removes whatever key the slot's stored string names *)
(*   "enum-collide"    an enum string is stored as the first string seen with the same 32-bit hash *)

\* ---- row deletion: presence, indexes, sorted entries, key, triggers
KeyUnset(S, o, F) ==
  LET kc == KeyCol(S) IN
  IF kc = None THEN S.seek
  ELSE IF "stale-unkey" \in F
       THEN {p \in S.seek : p[1] # S.data[kc][o]}
       ELSE {p \in S.seek : p[2] # o}

Fire(fired, S, col, k, o, v) ==
  LET ts == {n \in DOMAIN S.tg : S.tg[n].col = col} IN
  [n \in DOMAIN fired |-> IF n \in ts THEN Append(fired[n], [k |-> k, o |-> o, v |-> v]) ELSE fired[n]]

ClearRow(R, o, F) ==   \* R = [S, fired]
  LET S == R.S IN
  [S |-> [S EXCEPT !.has  = [n \in DOMAIN S.has |-> S.has[n] \ {o}],
                   !.ix   = [n \in DOMAIN S.ix |-> [S.ix[n] EXCEPT !.set = @ \ {o}]],
                   !.sx   = [n \in DOMAIN S.sx |-> [S.sx[n] EXCEPT !.items = {it \in @ : it[2] # o}]],
                   !.seek = KeyUnset(S, o, F)],
   fired |-> [n \in DOMAIN R.fired |-> Append(R.fired[n], [k |-> "del", o |-> o, v |-> 0])]]

RowStep(R, e, F) ==
  LET S == R.S IN
  CASE e.k = "skip" -> R
    [] e.k = "ins" /\ (~e.x \/ "failed-applied" \in F)
         -> [R EXCEPT !.S.fill = @ \cup {e.o}, !.S.live = @ \cup {e.o}]
    [] e.k = "del" /\ (e.o \in S.live \/ "dead-delete" \in F)
         -> ClearRow([R EXCEPT !.S.fill = @ \ {e.o}, !.S.live = @ \ {e.o}], e.o, F)
    [] OTHER -> R
RowPass(R, ops, F) == FoldLeft(LAMBDA acc, e : RowStep(acc, e, F), R, ops)

\* ---- first pass over one data column: stores and merges, in buffer order
KeySet(seek, o, v) == {p \in seek : p[1] # v /\ p[2] # o} \cup {<<v, o>>}

\* As built ("swap-append"), a string merge whose result has another length than its delta marks the operation
\* "skip" and appends a put of the result at the END of the whole buffer (SwapBytes). The buffer is a sequence of
\* sections (maximal runs of one block); the first pass visits the sections of the block that existed when it
\* started, and the LAST section of the buffer is read up to the buffer's length at the moment it is visited:
\* if it belongs to this block it also contains the puts appended by merges of EARLIER sections, which are thus
\* applied a second time, after the last section's own operations (overwriting what those did to the same row).
\* C.nlast = number of this block's operations that lie in the last section; C.tail0 = puts appended before it.
Reapply(C, puts) ==
  FoldLeft(LAMBDA acc, p : [acc EXCEPT !.has = @ \cup {p.o}, !.data = [@ EXCEPT ![p.o] = p.v]], C, puts)

\* C = [has, data, seek, canon, out, tail, nlast, tail0, left]   (left = operations still to visit)
Step1(desc, C0, e, live, F) ==
  LET C == IF C0.left = C0.nlast THEN [C0 EXCEPT !.tail0 = C0.tail, !.nlast = -1] ELSE C0
      drop  == \/ e.k = "skip"
               \/ (e.x /\ "failed-applied" \notin F)
               \/ (e.o \notin live /\ "write-dead" \notin F)
      base  == IF e.o \in C.has \/ "stale-merge" \in F THEN C.data[e.o] ELSE Zero(desc)
      nv    == IF e.k = "mrg" THEN MergeFn(desc.m, base, e.v) ELSE e.v
      \* whether the re-issue is observable is decided by comparing outcomes per row (Outcome)
      moved == "swap-append" \in F /\ e.k = "mrg" /\ desc.k = "str" /\ Len(nv) # Len(e.v)
      putop == [k |-> "put", o |-> e.o, v |-> nv, x |-> e.x]
      clash == desc.k = "enum" /\ nv \in Collide
      stored == IF clash /\ "enum-collide" \in F /\ C.canon # <<>> THEN C.canon[1] ELSE nv
  IN IF drop THEN [C EXCEPT !.out = Append(@, [e EXCEPT !.k = "skip"]), !.left = @ - 1]
     ELSE [C EXCEPT !.has  = IF desc.k = "bool" /\ nv = FALSE THEN @ \ {e.o} ELSE @ \cup {e.o},
                    !.data = [@ EXCEPT ![e.o] = stored],
                    !.seek = IF desc.k = "key" THEN KeySet(@, e.o, nv) ELSE @,
                    !.canon = IF clash /\ @ = <<>> THEN <<nv>> ELSE @,
                    !.out  = Append(@, IF moved THEN [e EXCEPT !.k = "skip"] ELSE putop),
                    !.tail = IF moved THEN Append(@, putop) ELSE @,
                    !.left = @ - 1]
Pass1(desc, C0, ops, live, F) ==
  LET C == FoldLeft(LAMBDA acc, e : Step1(desc, acc, e, live, F), [C0 EXCEPT !.left = Len(ops)], ops)
  IN IF "swap-append" \in F THEN Reapply(C, C.tail0) ELSE C

\* ---- second pass: computed columns see the final values, in order
Step2(R, col, e, isBool) ==        \* R = [S, fired]
  LET S == R.S
      gone == isBool /\ e.v = FALSE       \* a false bool is written as a delete operation
      IX == S.ix
      SX == S.sx
  IN IF e.k = "skip" THEN R ELSE
     [S |-> [S EXCEPT
        !.ix = [n \in DOMAIN IX |-> IF IX[n].col # col THEN IX[n]
                  ELSE [IX[n] EXCEPT !.set = IF ~gone /\ Pred(IX[n].p, e.v) THEN @ \cup {e.o} ELSE @ \ {e.o}]],
        !.sx = [n \in DOMAIN SX |-> IF SX[n].col # col THEN SX[n]
                  ELSE [SX[n] EXCEPT !.items = IF gone THEN {it \in @ : it[2] # e.o}
                                              ELSE {it \in @ : it[2] # e.o} \cup {<<e.v, e.o>>}]]],
      fired |-> Fire(R.fired, S, col, IF gone THEN "del" ELSE "put", e.o, IF gone THEN 0 ELSE e.v)]
Pass2(R, col, ops, isBool) == FoldLeft(LAMBDA acc, e : Step2(acc, col, e, isBool), R, ops)

\* ---- one column buffer: R = [S, fired, bufs]
ColPass(R, n, b, F) ==
  LET S    == R.S
      desc == S.reg[n]
      B    == R.bufs[n]
      ops  == OpsOfBlock(B, b)
      other == {i \in DOMAIN B : BlockOf(B[i].o) # b}
      nlast == IF other = {} THEN Len(B) ELSE Len(B) - MaxOf(other)   \* this block's operations in the buffer's last section
      C    == Pass1(desc, [has |-> S.has[n], data |-> S.data[n], seek |-> S.seek,
                          canon |-> IF n \in DOMAIN S.canon THEN S.canon[n] ELSE <<>>, out |-> <<>>, tail |-> <<>>,
                          nlast |-> IF nlast = 0 THEN -1 ELSE nlast, tail0 |-> <<>>, left |-> 0],
                    ops, S.live, F)
      S1   == [S EXCEPT !.has[n] = C.has, !.data[n] = C.data, !.seek = C.seek,
                        !.canon = IF desc.k = "enum" THEN [@ EXCEPT ![n] = C.canon] ELSE @]
      P    == Pass2([S |-> S1, fired |-> R.fired], n, C.out \o C.tail, desc.k = "bool")
  IN [S |-> P.S, fired |-> P.fired,
      bufs |-> [R.bufs EXCEPT ![n] = Rewrite(@, b, C.out) \o C.tail]]

ColsPass(R, names, b, F) == FoldLeft(LAMBDA acc, n : ColPass(acc, n, b, F), R, names)

\* ---- ghost: the per-row meaning of a block commit (what the properties promise), no buffers, no passes.
\* For one row: it is live afterwards iff its last effective marker says so (or, without marker, it was live);
\* a row that is not live holds nothing; a row deleted or inserted by this commit starts empty; then the
\* commit's writes to each column are folded in issue order (merge of an absent value starts from zero).
FoldCol(desc, cur0, ops) ==     \* cur = <<has, v>>
  FoldLeft(LAMBDA cur, e :
             LET nv == IF e.k = "mrg" THEN MergeFn(desc.m, IF cur[1] THEN cur[2] ELSE Zero(desc), e.v) ELSE e.v IN
             IF e.k = "skip" \/ e.x THEN cur
             ELSE IF desc.k = "bool" /\ nv = FALSE THEN <<FALSE, FALSE>> ELSE <<TRUE, nv>>,
           cur0, ops)

LiveAfter(was0, ops) ==         \* <<live, touched>>
  FoldLeft(LAMBDA was, e : IF e.x \/ e.k = "skip" THEN was ELSE IF e.k = "ins" THEN <<TRUE, TRUE>> ELSE IF was[1] THEN <<FALSE, TRUE>> ELSE was,
           was0, ops)

GhostBlock(S, bufs, b) ==
  LET rowOf(o) == LiveAfter(<<o \in S.live, FALSE>>, OfOffset(OpsOfBlock(BufOps(bufs, "row"), b), o))
      touched == UNION {{bufs[n][i].o : i \in {i \in DOMAIN bufs[n] : BlockOf(bufs[n][i].o) = b}} : n \in DOMAIN bufs}
  IN
  [n \in DOMAIN S.gt |->
     [o \in Offsets |->
        IF o \notin touched THEN S.gt[n][o]
        ELSE LET la == rowOf(o) IN
             IF ~la[1] THEN <<FALSE, Zero(S.reg[n])>>
             ELSE FoldCol(S.reg[n], IF la[2] THEN <<FALSE, Zero(S.reg[n])>> ELSE S.gt[n][o],
                          OfOffset(OpsOfBlock(BufOps(bufs, n), b), o))]]

AddRuns(F, rs) == FoldLeft(LAMBDA acc, x : AddRun(acc, x[1], x[2]), F, SetToSeq(rs))

ApplyBlockR(S, bufs, b, id, F, runs) ==
  LET S0    == [Grow(S, b) EXCEPT !.lastId[b + 1] = id, !.gt = GhostBlock(S, bufs, b),
                                  !.filler = AddRuns(@, {x \in runs : BlockOf(x[1]) = b})]
      noFire == [n \in DOMAIN S.tg |-> <<>>]
      R1    == RowPass([S |-> S0, fired |-> noFire], OpsOfBlock(BufOps(bufs, "row"), b), F)
      names == SetToSeq({n \in DOMAIN bufs : n # "row" /\ n \in DOMAIN S.reg})
      \* markers of an insert whose callback failed are not part of the commit (as built they are, and are emitted)
      bufs1 == IF "row" \in DOMAIN bufs /\ "failed-applied" \notin F
               THEN [bufs EXCEPT !["row"] = [i \in DOMAIN @ |-> IF @[i].x /\ BlockOf(@[i].o) = b THEN [@[i] EXCEPT !.k = "skip"] ELSE @[i]]]
               ELSE bufs
  IN ColsPass([S |-> R1.S, fired |-> R1.fired, bufs |-> bufs1], names, b, F)
ApplyBlock(S, bufs, b, id, F) == ApplyBlockR(S, bufs, b, id, F, {})

DevFlag == [ d \in {"D-dead-delete", "D-write-dead-row", "D-failed-insert-applied",
                    "D-merge-reads-stale", "D-swap-append", "D-stale-unkey", "D-enum-collision"} |->
             CASE d = "D-dead-delete" -> "dead-delete"
               [] d = "D-write-dead-row" -> "write-dead"
               [] d = "D-failed-insert-applied" -> "failed-applied"
               [] d = "D-merge-reads-stale" -> "stale-merge"
               [] d = "D-swap-append" -> "swap-append"
               [] d = "D-stale-unkey" -> "stale-unkey"
               [] d = "D-enum-collision" -> "enum-collide" ]
ApplyDevs == DOMAIN DevFlag
FlagsOf(ds) == {DevFlag[d] : d \in ds}

\* what is compared between two outcomes of ApplyBlock: the store, the triggers fired per row,
\* and per column and row the rewritten operations (order across rows is not observable)
PerRow(ops) == LET ns == NoSkip(ops) IN [o \in {ns[i].o : i \in DOMAIN ns} |-> PlainSeq(OfOffset(ns, o))]
Outcome(R, b) == [S |-> R.S,
                  fired |-> [n \in DOMAIN R.fired |-> PerRow(R.fired[n])],
                  bufs |-> [n \in DOMAIN R.bufs |-> PerRow(OpsOfBlock(R.bufs[n], b))]]

-----------------------------------------------------------------------------
(* Transactions                                                             *)

IdleTxn == [pc |-> "idle", c |-> None, setup |-> FALSE,
            sel |-> {}, self |-> {},     \* selection: tracked offsets, filler runs
            bufs |-> EmptyFn,            \* column name (or "row") -> sequence of operations
            reserved |-> {},             \* offsets this transaction has reserved and still holds
            dirty |-> {},                \* blocks still to commit
            pend |-> {},                 \* keys for which this transaction has buffered a key write
            kop |-> [fn |-> "none", k |-> "", found |-> FALSE, o |-> 0, n |-> 0],  \* key operation in progress
            cur |-> -1,                  \* block whose latch is held
            fired |-> EmptyFn,           \* (observation) trigger calls made by the last Apply: trigger -> sequence
            replay |-> FALSE,            \* the buffers were handed in by Replay / Restore
            runs |-> {},                 \* runs of value-less rows inserted by this transaction (restore of filler)
            sn |-> [nb |-> 0, blocks |-> <<>>, lo |-> <<>>, log |-> <<>>],  \* snapshot in progress: blocks announced, blocks read, its recorded log
            rs |-> [file |-> "none", pos |-> 0, trunc |-> FALSE]] \* restore in progress: file, items consumed

Init == /\ st = [c \in Colls |-> EmptyStore]
        /\ txn = [t \in Actors |-> IdleTxn]
        /\ used = {} /\ files = EmptyFn /\ dev = {}

Coll(t) == st[txn[t].c]
OthersReserved(t) == UNION {txn[u].reserved : u \in {u \in Actors \ {t} : txn[u].c = txn[t].c /\ txn[u].pc # "idle"}}

Begin(t, c) ==
  /\ txn[t].pc \in {"idle", "done"}
  /\ txn' = [txn EXCEPT ![t] = [IdleTxn EXCEPT !.pc = "body", !.c = c]]
  /\ UNCHANGED <<st, used, files, dev>>

\* the selection is a copy of the occupied set, taken lazily (initialize)
InitSel(t, sel) ==
  /\ txn[t].pc = "body" /\ ~txn[t].setup
  /\ LET S == Coll(t) IN
     \E mode \in Modes("D-inflight-insert-visible") :
        /\ IF mode = "strict"
             THEN /\ sel \ txn[t].reserved = S.live \ txn[t].reserved
                  /\ sel \subseteq S.live \cup txn[t].reserved
             ELSE /\ sel = S.fill
                  /\ ~(sel \subseteq S.live \cup txn[t].reserved)
        /\ dev' = IF mode = "asbuilt" THEN dev \cup {"D-inflight-insert-visible"} ELSE dev
        /\ txn' = [txn EXCEPT ![t].setup = TRUE, ![t].sel = sel, ![t].self = S.filler]
  /\ UNCHANGED <<st, used, files>>

AddOp(bufs, n, e) == IF n \in DOMAIN bufs THEN [bufs EXCEPT ![n] = Append(@, e)]
                     ELSE bufs @@ (n :> <<e>>)

\* insert: reserve a free offset at once, in the shared occupied set (collection.next)
Reserve(t, o) ==
  /\ txn[t].pc = "body"
  /\ LET S == Coll(t) IN o \in Offsets /\ o \notin S.fill /\ ~InFiller(S.filler, o)
  /\ st' = [st EXCEPT ![txn[t].c].fill = @ \cup {o}]
  /\ txn' = [txn EXCEPT ![t].bufs = AddOp(@, "row", Op("ins", o, 0)), ![t].reserved = @ \cup {o},
                        ![t].kop = [@ EXCEPT !.n = @ + 1]]
  /\ UNCHANGED <<used, files, dev>>

\* the insert callback returned an error: the offset is released, the buffers keep what was written
InsFail(t, o) ==
  /\ txn[t].pc = "body" /\ o \in txn[t].reserved
  /\ st' = [st EXCEPT ![txn[t].c].fill = @ \ {o}]
  /\ txn' = [txn EXCEPT ![t].reserved = @ \ {o},
                        ![t].bufs = [n \in DOMAIN @ |-> [i \in DOMAIN @[n] |->
                                        IF @[n][i].o = o THEN [@[n][i] EXCEPT !.x = TRUE] ELSE @[n][i]]]]
  /\ UNCHANGED <<used, files, dev>>

\* a buffered write: put / mrg into column n at offset o
Write(t, n, k, o, v) ==
  /\ txn[t].pc = "body" /\ n \in DOMAIN Coll(t).reg /\ k \in {"put", "mrg"}
  /\ txn' = [txn EXCEPT ![t].bufs = AddOp(@, n, Op(k, o, v)),
                        ![t].pend = IF Coll(t).reg[n].k = "key" THEN @ \cup {v} ELSE @]
  /\ UNCHANGED <<st, used, files, dev>>

\* a buffered row delete
Delete(t, o) ==
  /\ txn[t].pc = "body"
  /\ txn' = [txn EXCEPT ![t].bufs = AddOp(@, "row", Op("del", o, 0))]
  /\ UNCHANGED <<st, used, files, dev>>

SeqOfSet(S) == SetToSortSeq(S, <)
\* DeleteAll: a delete marker for every row of the selection, in ascending order of offsets (txn.DeleteAll ranges
\* over its selection). Value-less filler rows are kept as runs and deleted only by BulkDelete: the action is
\* driven on selections without them.
DeleteAll(t) ==
  /\ txn[t].pc = "body" /\ txn[t].setup /\ txn[t].self = {}
  /\ txn' = [txn EXCEPT ![t].bufs = FoldLeft(LAMBDA acc, o : AddOp(acc, "row", Op("del", o, 0)), txn[t].bufs, SeqOfSet(txn[t].sel))]
  /\ UNCHANGED <<st, used, files, dev>>

\* the callback returned an error
Rollback(t) ==
  /\ txn[t].pc = "body"
  \* (a reserved offset is never a live row unless a catalogued deviation has already made two holders collide;
  \*  the code clears the offset in either case)
  /\ st' = [st EXCEPT ![txn[t].c].fill = @ \ txn[t].reserved, ![txn[t].c].live = @ \ txn[t].reserved]
  /\ txn' = [txn EXCEPT ![t] = [IdleTxn EXCEPT !.pc = "done", !.c = txn[t].c]]
  /\ UNCHANGED <<used, files, dev>>

\* (no set of operations is ever built across columns: their values have different types)
DirtyStrict(bufs) == UNION {{BlockOf(bufs[n][i].o) : i \in {i \in DOMAIN bufs[n] : ~bufs[n][i].x}} : n \in DOMAIN bufs}
DirtyAll(bufs) == UNION {{BlockOf(bufs[n][i].o) : i \in DOMAIN bufs[n]} : n \in DOMAIN bufs}

\* the callback returned nil: dirty blocks are computed and the collection grown
CommitStart(t) ==
  /\ txn[t].pc = "body"
  /\ \E mode \in Modes("D-failed-insert-applied") :
       LET d == IF mode = "strict" THEN DirtyStrict(txn[t].bufs) ELSE DirtyAll(txn[t].bufs) IN
       /\ mode = "asbuilt" => d # DirtyStrict(txn[t].bufs)
       /\ dev' = IF mode = "asbuilt" THEN dev \cup {"D-failed-insert-applied"} ELSE dev
       /\ IF d = {}
            THEN /\ txn' = [txn EXCEPT ![t] = [IdleTxn EXCEPT !.pc = "done", !.c = txn[t].c]]
                 /\ UNCHANGED st
            ELSE /\ txn' = [txn EXCEPT ![t].pc = "commit", ![t].dirty = d]
                 /\ st' = [st EXCEPT ![txn[t].c] = Grow(@, MaxOf(d))]
  /\ UNCHANGED <<used, files>>

\* what the logger receives for block b
Emitted(S, id, b, bufs) ==
  [id |-> id, b |-> b,
   bufs |-> IF S.tp = "chan" THEN [n \in {n \in DOMAIN bufs : bufs[n] # <<>>} |-> PlainSeq(bufs[n])]
            ELSE [n \in {n \in DOMAIN bufs : OpsOfBlock(bufs[n], b) # <<>>} |-> PlainSeq(OpsOfBlock(bufs[n], b))]]
Recorded(id, b, bufs) ==
  [id |-> id, b |-> b,
   bufs |-> [n \in {n \in DOMAIN bufs : OpsOfBlock(bufs[n], b) # <<>>} |-> PlainSeq(OpsOfBlock(bufs[n], b))]]

\* latch block b, draw the id, apply markers and column buffers, hand the commit to recorder and logger.
\* Two candidate outcomes: the strict one, and (when it differs) the one with every accepted as-built
\* behaviour in force; the deviations blamed are those whose removal changes the as-built outcome.
ApplyKnown == Known \cap ApplyDevs
Blame(S, bufs, b, id) ==
  LET full == Outcome(ApplyBlock(S, bufs, b, id, FlagsOf(ApplyKnown)), b)
      bl == {d \in ApplyKnown : Outcome(ApplyBlock(S, bufs, b, id, FlagsOf(ApplyKnown \ {d})), b) # full}
  IN IF bl = {} THEN ApplyKnown ELSE bl

ValueAt(S, n, o) == IF o \in S.has[n] THEN <<TRUE, IF S.reg[n].k = "bool" THEN TRUE ELSE S.data[n][o]>>
                    ELSE <<FALSE, Zero(S.reg[n])>>

\* the observable state of one block
BlockProj(S, b) ==
  [rows |-> {o \in S.live : BlockOf(o) = b},
   runs |-> {x \in S.filler : BlockOf(x[1]) <= b /\ b <= BlockOf(x[2])},
   vals |-> [n \in DOMAIN S.reg |-> [o \in {o \in S.live : BlockOf(o) = b} |-> ValueAt(S, n, o)]],
   index |-> [n \in DOMAIN S.ix |-> {o \in S.ix[n].set \cap S.live : BlockOf(o) = b}]]
Remember(S, b) ==
  IF ~History THEN S
  ELSE LET grown == S.ap \o [i \in 1..(b + 1 - Len(S.ap)) |-> <<>>] IN
       [S EXCEPT !.ap = [grown EXCEPT ![b + 1] = Append(@, BlockProj(S, b))]]

\* T is the transaction record the step starts from (txn[t], or the item a restore has just loaded)
ApplyT(t, T, b, id, mode) ==
  /\ T.pc = "commit" /\ b \in T.dirty
  /\ LET c == T.c
         S == st[c]
     IN /\ \A w \in S.wl : w[1] # b
        /\ id \notin used /\ id > 0 /\ id > Grow(S, b).lastId[b + 1]
        /\ LET strict == ApplyBlockR(S, T.bufs, b, id, {}, T.runs)
               full == ApplyBlockR(S, T.bufs, b, id, FlagsOf(ApplyKnown), T.runs)
               same == Outcome(full, b) = Outcome(strict, b)
               r == IF mode = "strict" THEN strict ELSE full
               \* the physical layout of the rewritten buffers (which is not observable per row but decides how
               \* later blocks of the same buffers are read as built) follows the as-built code whenever that is
               \* indistinguishable from the strict outcome
               nb == IF same THEN full.bufs ELSE r.bufs
               S2 == [Remember(r.S, b) EXCEPT
                        !.wl = @ \cup {<<b, t>>},
                        !.rec = IF @.open THEN [@ EXCEPT !.log = Append(@, Recorded(id, b, nb))] ELSE @,
                        !.strm = Append(@, Emitted(S, id, b, nb))]
           IN /\ mode = "asbuilt" => (ApplyKnown # {} /\ ~same)
              /\ st' = [st EXCEPT ![c] = S2]
              /\ txn' = [txn EXCEPT ![t] = [T EXCEPT !.pc = "latched", !.cur = b, !.bufs = nb,
                                                     !.reserved = {o \in @ : BlockOf(o) # b},
                                                     !.fired = r.fired]]
              /\ dev' = IF mode = "asbuilt" THEN dev \cup Blame(S, T.bufs, b, id) ELSE dev
        /\ used' = used \cup {id}
  /\ UNCHANGED files

Apply(t, b, id, mode) == ApplyT(t, txn[t], b, id, mode)

\* release the latch; next block or done
Unlatch(t) ==
  /\ txn[t].pc = "latched"
  /\ st' = [st EXCEPT ![txn[t].c].wl = {w \in @ : w # <<txn[t].cur, t>>}]
  /\ LET rest == txn[t].dirty \ {txn[t].cur} IN
     txn' = IF rest = {} THEN [txn EXCEPT ![t] = [IdleTxn EXCEPT !.pc = IF txn[t].rs.file # "none" THEN "restoring" ELSE "done",
                                                                !.c = txn[t].c, !.rs = txn[t].rs]]
            ELSE [txn EXCEPT ![t].pc = "commit", ![t].dirty = rest, ![t].cur = -1]
  /\ UNCHANGED <<used, files, dev>>


-----------------------------------------------------------------------------
(* Filters, iteration and aggregates (C04).  The selection is a set of tracked offsets plus the runs of     *)
(* value-less rows that were live when it was taken.  A name denotes a set of rows: a bitmap index its      *)
(* members, a data column the rows holding a value (a bool column: the rows holding TRUE).                  *)

NameKnown(S, n) == n \in DOMAIN S.ix \cup DOMAIN S.reg
RowsOf(S, n) == IF n \in DOMAIN S.ix THEN S.ix[n].set ELSE S.has[n]

\* the selection must have been taken (every filter and read takes it first)
Selected(t) == txn[t].pc = "body" /\ txn[t].setup

\* f: with | without | union | withunion; first: the transaction had not taken its selection before this call
\* (the harness logs the "sel" event first in any case, and tells whether the call found it taken)
FilterNames(t, f, names, first) ==
  /\ Selected(t)
  /\ LET S == Coll(t)
         known == SelectSeq(names, LAMBDA n : NameKnown(S, n))
         U == UNION {RowsOf(S, known[i]) : i \in DOMAIN known}
         sel == txn[t].sel
         fl == txn[t].self
     IN \E r \in
          CASE f = "with" ->
                 {IF Len(known) < Len(names) THEN [sel |-> {}, fl |-> {}]
                  ELSE [sel |-> {o \in sel : \A i \in DOMAIN names : o \in RowsOf(S, names[i])},
                        fl |-> IF names = <<>> THEN fl ELSE {}]}
            [] f = "without" ->
                 {[sel |-> sel \ U, fl |-> fl]}
            [] f = "union" \/ (f = "withunion" /\ first) ->
                 \* the first Union of an unfiltered transaction starts from its first operand; if that operand is an
                 \* unknown name the code unions the rest into ALL rows while set algebra would start from the empty
                 \* set: both readings are accepted
                 IF first /\ names # <<>>
                   THEN IF NameKnown(S, names[1])
                          THEN {[sel |-> (sel \cap RowsOf(S, names[1])) \cup UNION {RowsOf(S, known[i]) : i \in 2..Len(known)}, fl |-> {}]}
                          ELSE {[sel |-> sel \cup U, fl |-> fl], [sel |-> U, fl |-> {}]}
                   ELSE {[sel |-> sel \cup U, fl |-> fl]}
            [] OTHER ->   \* withunion on a filtered transaction: intersect with the union of the known names
                 {[sel |-> sel \cap U, fl |-> {}]}
        : txn' = [txn EXCEPT ![t].sel = r.sel, ![t].self = r.fl]
  /\ UNCHANGED <<st, used, files, dev>>

\* value predicates: WithValue (any column), WithInt / WithUint / WithFloat (numeric), WithString (textual)
FilterValue(t, f, col, p) ==
  /\ Selected(t)
  /\ LET S == Coll(t)
         typed == CASE f \in {"wint", "wuint", "wfloat"} -> col \in DOMAIN S.reg /\ S.reg[col].k = "int"
                    [] f = "wstr" -> col \in DOMAIN S.reg /\ S.reg[col].k \in {"str", "enum", "key", "tok"}
                    [] OTHER -> col \in DOMAIN S.reg
         val(o) == IF S.reg[col].k = "bool" THEN TRUE ELSE S.data[col][o]
         \* WithValue on a bitmap index: the value of a row is its membership (every live row has one - provided the index
         \* bitmap reaches it, which holds when the index existed before the row's block was first committed: the only
         \* case the harness drives); value-less filler rows are in no index
         onIndex == f = "wval" /\ col \in DOMAIN S.ix
     IN txn' = IF onIndex
                 THEN [txn EXCEPT ![t].sel = {o \in @ : Pred(p, o \in S.ix[col].set)},
                                  ![t].self = IF Pred(p, FALSE) THEN @ ELSE {}]
                 ELSE [txn EXCEPT ![t].sel = IF typed THEN {o \in @ \cap S.has[col] : Pred(p, val(o))} ELSE {},
                                  ![t].self = {}]
  /\ UNCHANGED <<st, used, files, dev>>

SelCount(t) == Cardinality(txn[t].sel) + FillerSize(txn[t].self)

\* aggregates over the selected rows that hold a value in the column
AggRows(t, col) == txn[t].sel \cap Coll(t).has[col]
SumOver(S, col, rows) == FoldLeft(LAMBDA acc, o : acc + S.data[col][o], 0, SetToSeq(rows))

-----------------------------------------------------------------------------
(* Primary keys.  InsertKey / UpsertKey / QueryKey / DeleteKey / SetKey first look the key up in the  *)
(* committed key table; what follows (reserve, writes, key write, delete marker) are ordinary steps.  *)
(* KeyCheck records the lookup, KeyEnd checks that the call did what its contract says.               *)

NoKop == [fn |-> "none", k |-> "", found |-> FALSE, o |-> 0, n |-> 0]
\* keys that transactions in flight have written or are in the middle of inserting (the key write of an
\* InsertKey / UpsertKey is buffered only after the insert callback has returned)
PendingKeys(c) == UNION {txn[u].pend \cup (IF txn[u].kop.fn \in {"ins", "ups"} /\ ~txn[u].kop.found THEN {txn[u].kop.k} ELSE {})
                           : u \in {u \in Actors : txn[u].c = c /\ txn[u].pc \in {"body", "commit", "latched"}}}

KeyCheck(t, fn, k, found, o) ==
  /\ txn[t].pc = "body" /\ txn[t].kop.fn = "none"
  /\ LET S == Coll(t)
         committed == \E p \in S.seek : p[1] = k
         \* lookups (QueryKey, DeleteKey) see the committed table only (own reads return committed values);
         \* calls that would create a second holder of the key must also respect keys written by transactions in flight
         pending == fn \in {"ins", "ups", "set"} /\ k \in PendingKeys(txn[t].c)
     IN \E mode \in Modes("D-key-check-ignores-pending") :
          /\ IF mode = "strict" THEN found = (committed \/ pending)
                                ELSE (found = committed /\ ~committed /\ pending)
          /\ committed => (found /\ <<k, o>> \in S.seek)
          /\ dev' = IF mode = "asbuilt" THEN dev \cup {"D-key-check-ignores-pending"} ELSE dev
  /\ txn' = [txn EXCEPT ![t].kop = [fn |-> fn, k |-> k, found |-> found, o |-> o, n |-> 0]]
  /\ UNCHANGED <<st, used, files>>

LastOp(bufs, n) == bufs[n][Len(bufs[n])]
KeyEnd(t, err) ==
  /\ txn[t].pc = "body" /\ txn[t].kop.fn # "none"
  /\ LET q == txn[t].kop
         kc == KeyCol(Coll(t))
         b == txn[t].bufs
         keyWritten == kc \in DOMAIN b /\ b[kc] # <<>> /\ LastOp(b, kc).k = "put" /\ LastOp(b, kc).v = q.k
         created == q.n = 1 /\ keyWritten /\ "row" \in DOMAIN b
                    /\ \E i \in DOMAIN b["row"] : b["row"][i].k = "ins" /\ b["row"][i].o = LastOp(b, kc).o
     IN CASE q.fn = "ins" -> err = q.found /\ (IF q.found THEN q.n = 0 ELSE created)
          [] q.fn = "ups" -> ~err /\ (IF q.found THEN q.n = 0 ELSE created)
          [] q.fn = "qry" -> err = ~q.found /\ q.n = 0
          [] q.fn = "del" -> err = ~q.found /\ q.n = 0
                             /\ (q.found => ("row" \in DOMAIN b /\ LastOp(b, "row").k = "del" /\ LastOp(b, "row").o = q.o))
          [] q.fn = "set" -> err = q.found /\ q.n = 0 /\ (~q.found => keyWritten)
  /\ txn' = [txn EXCEPT ![t].kop = NoKop]
  /\ UNCHANGED <<st, used, files, dev>>

-----------------------------------------------------------------------------
(* Replay of an emitted commit on another collection (Collection.Replay):   *)
(* a transaction whose buffers are the commit's buffers.                    *)

ReplayBegin(t, c, cm, ri) ==
  /\ txn[t].pc \in {"idle", "done"}
  /\ \E mode \in Modes("D-replay-all-blocks") :
       LET bufs == [n \in DOMAIN cm.bufs |-> [i \in DOMAIN cm.bufs[n] |-> cm.bufs[n][i] @@ [x |-> FALSE]]]
           d == IF mode = "strict" THEN {cm.b} ELSE {cm.b} \cup DirtyAll(bufs)
       IN /\ mode = "asbuilt" => d # {cm.b}
          /\ dev' = IF mode = "asbuilt" THEN dev \cup {"D-replay-all-blocks"} ELSE dev
          /\ txn' = [txn EXCEPT ![t] = [IdleTxn EXCEPT !.pc = "commit", !.c = c, !.bufs = bufs,
                                                       !.dirty = d, !.replay = TRUE]]
          /\ st' = [st EXCEPT ![c] = [Grow(@, MaxOf(d)) EXCEPT !.rp = ri]]
  /\ UNCHANGED <<used, files>>

-----------------------------------------------------------------------------
(* Snapshot (Collection.Snapshot): install the recorder, announce the number of blocks, read block after  *)
(* block (each under the block's read latch and the collection lock), detach the recorder, copy the       *)
(* recorded commits behind the state.  A file is [nb, blocks, log].                                       *)

Occupied(S) == S.fill \cup UNION {{x[2]} : x \in S.filler}
BlockRuns(S, b) == {<<Clip(x[1], x[2], b)[1], Clip(x[1], x[2], b)[2]>> : x \in {x \in S.filler : BlockOf(x[1]) <= b /\ b <= BlockOf(x[2])}}
BlockImage(S, b, rows) ==
  [lastId |-> Grow(S, b).lastId[b + 1], rows |-> {o \in rows : BlockOf(o) = b}, runs |-> BlockRuns(S, b),
   cols |-> [n \in DOMAIN S.reg |-> [o \in {o \in S.has[n] : BlockOf(o) = b} |->
                                       IF S.reg[n].k = "bool" THEN TRUE ELSE S.data[n][o]]]]

SnapOpen(t, c) ==
  /\ txn[t].pc \in {"idle", "done"} /\ ~st[c].rec.open
  /\ st' = [st EXCEPT ![c].rec = [open |-> TRUE, log |-> <<>>]]
  /\ txn' = [txn EXCEPT ![t] = [IdleTxn EXCEPT !.pc = "snap.open", !.c = c,
                                                !.sn = [@ EXCEPT !.lo = [i \in DOMAIN st[c].ap |-> Len(st[c].ap[i])]]]]
  /\ UNCHANGED <<used, files, dev>>

\* a snapshot refused because another one is in progress
SnapBusy(t, c) ==
  /\ txn[t].pc \in {"idle", "done"} /\ st[c].rec.open
  /\ UNCHANGED vars

\* the number of blocks is derived from the highest occupied offset (never more than have been committed); a
\* collection whose rows have all been deleted may still announce its first (empty) block
SnapBlocksChoices(S) ==
  LET cap(n) == IF n < NBlocks(S) THEN n ELSE NBlocks(S) IN
  \* (whether an empty collection has ever grown its first block is not tracked: restoring an empty block grows it)
  IF Occupied(S) = {} THEN {0, 1} ELSE {cap(BlockOf(MaxOf(Occupied(S))) + 1)}
SnapHeader(t) ==
  /\ txn[t].pc = "snap.open"
  /\ \E nb \in SnapBlocksChoices(Coll(t)) :
       txn' = [txn EXCEPT ![t].pc = "snap.blocks", ![t].sn = [@ EXCEPT !.nb = nb]]
  /\ UNCHANGED <<st, used, files, dev>>

\* one block: last commit id, occupied rows, every data column's present values
SnapBlock(t) ==
  /\ txn[t].pc = "snap.blocks" /\ Len(txn[t].sn.blocks) < txn[t].sn.nb
  /\ LET S == Coll(t)
         b == Len(txn[t].sn.blocks)
     IN /\ \A w \in S.wl : w[1] # b
        /\ \E mode \in Modes("D-inflight-insert-visible") :
             LET rows == IF mode = "strict" THEN S.live ELSE S.fill IN
             /\ mode = "asbuilt" => {o \in S.fill : BlockOf(o) = b} # {o \in S.live : BlockOf(o) = b}
             /\ dev' = IF mode = "asbuilt" THEN dev \cup {"D-inflight-insert-visible"} ELSE dev
             /\ txn' = [txn EXCEPT ![t].sn.blocks = Append(@, BlockImage(S, b, rows))]
  /\ UNCHANGED <<st, used, files>>

\* the recorder is detached: what it has recorded belongs to this snapshot (each snapshot has a temporary file of its own), and
\* from here on another snapshot may install its recorder - also before this one has copied its log and returned
\* every block has been written; the recorder is still installed (an observation point of its own under real parallelism)
SnapAllRead(t) ==
  /\ txn[t].pc = "snap.blocks" /\ Len(txn[t].sn.blocks) = txn[t].sn.nb
  /\ txn' = [txn EXCEPT ![t].pc = "snap.closing"]
  /\ UNCHANGED <<st, used, files, dev>>

SnapClose(t) ==
  /\ txn[t].pc \in {"snap.blocks", "snap.closing"} /\ Len(txn[t].sn.blocks) = txn[t].sn.nb
  /\ txn' = [txn EXCEPT ![t].pc = "snap.copy", ![t].sn.log = Coll(t).rec.log]
  /\ st' = [st EXCEPT ![txn[t].c].rec = [open |-> FALSE, log |-> <<>>]]
  /\ UNCHANGED <<used, files, dev>>

SnapCopy(t, name) ==
  /\ txn[t].pc = "snap.copy"
  /\ files' = [f \in DOMAIN files \cup {name} |->
                  IF f = name THEN [nb |-> txn[t].sn.nb, blocks |-> txn[t].sn.blocks, log |-> txn[t].sn.log,
                                    lo |-> txn[t].sn.lo, hi |-> [i \in DOMAIN Coll(t).ap |-> Len(Coll(t).ap[i])]]
                  ELSE files[f]]
  /\ txn' = [txn EXCEPT ![t] = [IdleTxn EXCEPT !.pc = "done", !.c = txn[t].c]]
  /\ UNCHANGED <<st, used, dev>>

\* the destination failed: Snapshot returns the error; the recorder must be detached again
SnapFail(t) ==
  /\ txn[t].pc \in {"snap.open", "snap.blocks", "snap.closing", "snap.copy"}
  \* (in the copy stage its recorder is detached already: the one installed now, if any, belongs to another snapshot)
  /\ st' = IF txn[t].pc = "snap.copy" THEN st ELSE [st EXCEPT ![txn[t].c].rec = [open |-> FALSE, log |-> <<>>]]
  /\ txn' = [txn EXCEPT ![t] = [IdleTxn EXCEPT !.pc = "done", !.c = txn[t].c]]
  /\ UNCHANGED <<used, files, dev>>

-----------------------------------------------------------------------------
(* Restore (Collection.Restore): every block of the file becomes one transaction that is committed, then    *)
(* every recorded commit whose id exceeds the stored id of its block is replayed.  Items that change       *)
(* nothing (an empty block, a filtered commit) leave no trace and are skipped.                             *)


BlockBufs(B) ==
  LET cols == {n \in DOMAIN B.cols : DOMAIN B.cols[n] # {}}
      rowb == IF B.rows = {} THEN EmptyFn ELSE ("row" :> [i \in 1..Cardinality(B.rows) |-> Op("ins", SeqOfSet(B.rows)[i], 0)])
  IN rowb @@ [n \in cols |-> LET os == SeqOfSet(DOMAIN B.cols[n]) IN [i \in DOMAIN os |-> Op("put", os[i], B.cols[n][os[i]])]]

\* the items of a file, in the order Restore processes them: <<kind, block, bufs, runs, id>>
FileItems(F) ==
  [i \in 1..F.nb |-> [kind |-> "block", b |-> i - 1, bufs |-> BlockBufs(F.blocks[i]), runs |-> F.blocks[i].runs, id |-> 0]]
  \o [i \in DOMAIN F.log |-> [kind |-> "commit", b |-> F.log[i].b,
                               bufs |-> [n \in DOMAIN F.log[i].bufs |-> [j \in DOMAIN F.log[i].bufs[n] |-> F.log[i].bufs[n][j] @@ [x |-> FALSE]]],
                               runs |-> {}, id |-> F.log[i].id]]
Effective(F, it) ==
  IF it.kind = "block" THEN DOMAIN it.bufs # {} \/ it.runs # {}
  ELSE it.id > (IF it.b < F.nb THEN F.blocks[it.b + 1].lastId ELSE 0)

RestoreBegin(t, c, name, trunc) ==
  /\ txn[t].pc \in {"idle", "done"} /\ name \in DOMAIN files
  /\ txn' = [txn EXCEPT ![t] = [IdleTxn EXCEPT !.pc = "restoring", !.c = c, !.rs = [file |-> name, pos |-> 0, trunc |-> trunc]]]
  /\ UNCHANGED <<st, used, files, dev>>

\* the transaction record for the next effective item, or the record unchanged if none is left
NextEffective(F, pos) ==
  LET its == FileItems(F)
      cand == {i \in (pos + 1)..Len(its) : Effective(F, its[i])}
  IN IF cand = {} THEN 0 ELSE MinOf(cand)
RestoreLoaded(t) ==
  LET F == files[txn[t].rs.file]
      i == NextEffective(F, txn[t].rs.pos)
      it == FileItems(F)[i]
  IN [txn[t] EXCEPT !.pc = "commit", !.bufs = it.bufs, !.runs = it.runs, !.dirty = {it.b}, !.replay = TRUE,
                    !.rs = [@ EXCEPT !.pos = i]]
RestoreCanLoad(t) == txn[t].pc = "restoring" /\ NextEffective(files[txn[t].rs.file], txn[t].rs.pos) # 0

\* a restoring actor's Apply: load the next effective item and commit it
RestoreApply(t, b, id, mode) ==
  /\ RestoreCanLoad(t)
  /\ ApplyT(t, RestoreLoaded(t), b, id, mode)

\* Restore returns. Without error every effective item has been applied. With a truncated file it may stop
\* early, but only after whole items, in order (what has been applied is a prefix); it reports an error
\* unless it stopped exactly where the truncated file ends at an item boundary of the log.
RestoreEnd(t, err) ==
  /\ txn[t].pc = "restoring"
  /\ LET F == files[txn[t].rs.file]
         left == NextEffective(F, txn[t].rs.pos)
     IN IF txn[t].rs.trunc
          THEN ~err => (left = 0 \/ FileItems(F)[left].kind = "commit")   \* all blocks restored, a prefix of the log
          ELSE ~err /\ left = 0
  /\ txn' = [txn EXCEPT ![t] = [IdleTxn EXCEPT !.pc = "done", !.c = txn[t].c]]
  /\ UNCHANGED <<st, used, files, dev>>

-----------------------------------------------------------------------------
(* Schema changes (sequential, between transactions)                        *)

CreateColumn(c, n, desc) ==
  /\ n \notin DOMAIN st[c].reg /\ n \notin DOMAIN st[c].ix /\ n \notin DOMAIN st[c].sx /\ n \notin DOMAIN st[c].tg
  /\ st' = [st EXCEPT ![c].reg = @ @@ (n :> desc),
                      ![c].has = @ @@ (n :> {}),
                      ![c].data = @ @@ (n :> [o \in Offsets |-> Zero(desc)]),
                      ![c].canon = IF desc.k = "enum" THEN @ @@ (n :> <<>>) ELSE @,
                      ![c].gt = @ @@ (n :> [o \in Offsets |-> <<FALSE, Zero(desc)>>])]
  /\ UNCHANGED <<txn, used, files, dev>>

\* DropColumn removes the column's own entry from the registry, and nothing else: what was computed from it (bitmap
\* indexes, sorted indexes, triggers) stays registered under its own name but is DETACHED - it still loses the rows
\* that are deleted (row markers go to every registered name) and never sees a store again, not even when a column of
\* the same name is created later. No listed property quantifies over dropped columns; the action records what the
\* code does. (The key column is never dropped: Collection.pk would keep pointing at it.)
Detached == ""
Detach(f, n) == [m \in DOMAIN f |-> IF f[m].col = n THEN [f[m] EXCEPT !.col = Detached] ELSE f[m]]
Less(f, n) == [m \in DOMAIN f \ {n} |-> f[m]]
DropColumn(c, n) ==
  /\ n \in DOMAIN st[c].reg /\ st[c].reg[n].k # "key"
  /\ \A t \in Actors : txn[t].c = c => txn[t].pc \in {"idle", "done"}
  /\ st' = [st EXCEPT ![c].reg = Less(@, n), ![c].has = Less(@, n), ![c].data = Less(@, n), ![c].gt = Less(@, n),
                      ![c].canon = IF n \in DOMAIN @ THEN Less(@, n) ELSE @,
                      ![c].ix = Detach(@, n), ![c].sx = Detach(@, n), ![c].tg = Detach(@, n)]
  /\ UNCHANGED <<txn, used, files, dev>>

\* back-fill from the column's current contents
CreateIndex(c, n, col, p) ==
  /\ col \in DOMAIN st[c].reg /\ n \notin DOMAIN st[c].ix
  /\ LET S == st[c] IN
     st' = [st EXCEPT ![c].ix = @ @@ (n :> [col |-> col, p |-> p,
                                            set |-> {o \in S.has[col] : Pred(p, IF S.reg[col].k = "bool" THEN TRUE ELSE S.data[col][o])}])]
  /\ UNCHANGED <<txn, used, files, dev>>

DropIndex(c, n) ==
  /\ n \in DOMAIN st[c].ix
  /\ st' = [st EXCEPT ![c].ix = [m \in DOMAIN @ \ {n} |-> @[m]]]
  /\ UNCHANGED <<txn, used, files, dev>>

CreateSort(c, n, col) ==
  /\ col \in DOMAIN st[c].reg /\ n \notin DOMAIN st[c].sx
  /\ LET S == st[c] IN
     st' = [st EXCEPT ![c].sx = @ @@ (n :> [col |-> col, items |-> {<<S.data[col][o], o>> : o \in S.has[col]}])]
  /\ UNCHANGED <<txn, used, files, dev>>

CreateTrigger(c, n, col) ==
  /\ col \in DOMAIN st[c].reg /\ n \notin DOMAIN st[c].tg
  /\ st' = [st EXCEPT ![c].tg = @ @@ (n :> [col |-> col])]
  /\ UNCHANGED <<txn, used, files, dev>>

DropTrigger(c, n) ==
  /\ n \in DOMAIN st[c].tg
  /\ st' = [st EXCEPT ![c].tg = [m \in DOMAIN @ \ {n} |-> @[m]]]
  /\ UNCHANGED <<txn, used, files, dev>>

\* a collection is discarded (its name may be used for a fresh one)
Drop(c) ==
  /\ \A t \in Actors : txn[t].c = c => txn[t].pc \in {"idle", "done"}
  /\ st' = [st EXCEPT ![c] = EmptyStore]
  /\ UNCHANGED <<txn, used, files, dev>>

\* resources (open descriptors, recorder files in the temp directory), measured by the harness after forced GCs:
\* whenever no snapshot is running they are what they were at the first measurement (C14)
ResProbe(fds, tmp) ==
  /\ \A t \in Actors : txn[t].pc \notin {"snap.open", "snap.blocks", "snap.closing", "snap.copy"}
  /\ IF "res" \in DOMAIN files
       THEN fds = files["res"].fds /\ tmp = files["res"].tmp /\ UNCHANGED files
       ELSE files' = files @@ ("res" :> [fds |-> fds, tmp |-> tmp])
  /\ UNCHANGED <<st, txn, used, dev>>

SetTransport(c, tp) ==
  /\ st' = [st EXCEPT ![c].tp = tp]
  /\ UNCHANGED <<txn, used, files, dev>>

-----------------------------------------------------------------------------
(* Prologue macro-actions (sequential): rows without values, kept as runs.  *)
(* BulkInsert: one transaction inserting the rows lo..hi (empty callbacks); *)
(* BulkDelete: one transaction deleting lo..hi. ids[i] is the id of the     *)
(* commit for the i-th block touched, ascending.                            *)

BulkCommits(S, ids, k, lo, hi) ==
  [i \in 1..Len(ids) |-> [id |-> ids[i], b |-> BlockOf(lo) + i - 1, bulk |-> <<k>> \o Clip(lo, hi, BlockOf(lo) + i - 1)]]

BulkStamp(S, ids, lo, hi) ==
  LET G == Grow(S, BlockOf(hi)) IN
  [G EXCEPT !.lastId = [j \in DOMAIN @ |-> IF j - 1 \in BlocksOf(lo, hi) THEN ids[j - BlockOf(lo)] ELSE @[j]]]

BulkInsert(c, lo, hi, ids) ==
  /\ lo <= hi /\ Len(ids) = BlockOf(hi) - BlockOf(lo) + 1
  /\ \A t \in Actors : txn[t].pc \in {"idle", "done"}
  /\ LET S == st[c] IN
     /\ \A o \in S.fill : o < lo \/ o > hi
     /\ \A x \in S.filler : x[2] < lo \/ x[1] > hi
     /\ \A i \in DOMAIN ids : ids[i] \notin used /\ ids[i] > 0 /\ ids[i] > Grow(S, BlockOf(hi)).lastId[BlockOf(lo) + i]
     /\ \A i, j \in DOMAIN ids : i < j => ids[i] # ids[j]
     /\ st' = [st EXCEPT ![c] = [BulkStamp(S, ids, lo, hi) EXCEPT
                                   !.filler = AddRun(@, lo, hi),
                                   !.strm = @ \o BulkCommits(S, ids, "ins", lo, hi)]]
  /\ used' = used \cup SeqToSet(ids)
  /\ UNCHANGED <<txn, files, dev>>

BulkDelete(c, lo, hi, ids) ==
  /\ lo <= hi /\ Len(ids) = BlockOf(hi) - BlockOf(lo) + 1
  /\ \A t \in Actors : txn[t].pc \in {"idle", "done"}
  /\ LET S == st[c] IN
     /\ \E x \in S.filler : x[1] <= lo /\ hi <= x[2]
     /\ \A i \in DOMAIN ids : ids[i] \notin used /\ ids[i] > 0 /\ ids[i] > S.lastId[BlockOf(lo) + i]
     /\ \A i, j \in DOMAIN ids : i < j => ids[i] # ids[j]
     /\ st' = [st EXCEPT ![c] = [BulkStamp(S, ids, lo, hi) EXCEPT
                                   !.filler = CutRun(@, lo, hi),
                                   !.strm = @ \o BulkCommits(S, ids, "del", lo, hi)]]
  /\ used' = used \cup SeqToSet(ids)
  /\ UNCHANGED <<txn, files, dev>>

\* replay of a bulk commit on another collection
BulkReplay(c, cm, id) ==
  /\ \A t \in Actors : txn[t].pc \in {"idle", "done"}
  /\ id \notin used /\ id > 0
  /\ LET S == Grow(st[c], cm.b) IN
     /\ id > S.lastId[cm.b + 1]
     /\ st' = [st EXCEPT ![c] = [S EXCEPT
                  !.lastId[cm.b + 1] = id,
                  !.filler = IF cm.bulk[1] = "ins" THEN AddRun(@, cm.bulk[2], cm.bulk[3]) ELSE CutRun(@, cm.bulk[2], cm.bulk[3]),
                  !.rp = @ + 1,
                  !.strm = Append(@, [id |-> id, b |-> cm.b, bulk |-> cm.bulk])]]
  /\ used' = used \cup {id}
  /\ UNCHANGED <<txn, files, dev>>

-----------------------------------------------------------------------------
(* Observable state and the properties                                      *)

\* an invariant is excused once the execution has taken one of the catalogued deviations that break it
Excused(ds) == Guard /\ dev \cap ds # {}

Quiescent(c) == \A t \in Actors : txn[t].c = c => txn[t].pc \in {"idle", "done"}
NoLatch(c) == st[c].wl = {}

Project(S) ==
  [rows   |-> S.fill, filler |-> S.filler, count |-> CountOf(S),
   vals   |-> [n \in DOMAIN S.reg |-> [o \in S.fill |-> ValueAt(S, n, o)]],
   index  |-> [n \in DOMAIN S.ix |-> S.ix[n].set \cap S.fill],
   sorted |-> [n \in DOMAIN S.sx |-> {it \in S.sx[n].items : it[2] \in S.fill}],
   keys   |-> {p \in S.seek : TRUE}]

\* C01: every live row reads back, in every column, what the committed history says it holds
ReadBack ==
  Excused({"D-write-dead-row", "D-swap-append", "D-failed-insert-applied", "D-enum-collision", "D-dead-delete", "D-merge-reads-stale",
           "D-replay-all-blocks"}) \/
  \A c \in Colls : NoLatch(c) =>
    \A n \in DOMAIN st[c].reg : \A o \in st[c].live :
       LET g == st[c].gt[n][o]  v == ValueAt(st[c], n, o) IN
       g[1] = v[1] /\ (g[1] => g[2] = v[2])

\* C03: a bitmap index selects exactly the live rows whose current value satisfies the predicate
IndexCoherent ==
  Excused({"D-write-dead-row", "D-swap-append", "D-failed-insert-applied", "D-enum-collision"}) \/
  \A c \in Colls : NoLatch(c) =>
    \A n \in DOMAIN st[c].ix :
      LET S == st[c]  x == S.ix[n] IN
      x.col # Detached =>
      x.set \cap S.live = {o \in S.live \cap S.has[x.col] :
                              Pred(x.p, IF S.reg[x.col].k = "bool" THEN TRUE ELSE S.data[x.col][o])}

\* C16 (state part): a sorted index holds exactly one entry per live row with a value, carrying the current value
SortCoherent ==
  Excused({"D-write-dead-row", "D-swap-append", "D-failed-insert-applied"}) \/
  \A c \in Colls : NoLatch(c) =>
    \A n \in DOMAIN st[c].sx :
      LET S == st[c]  x == S.sx[n] IN
      x.col # Detached =>
      {it \in x.items : it[2] \in S.live} = {<<S.data[x.col][o], o>> : o \in S.live \cap S.has[x.col]}

\* C12 (state part): the key table is a bijection between keys and the live rows carrying them
KeyCoherent ==
  Excused({"D-write-dead-row", "D-dead-delete", "D-stale-unkey", "D-key-check-ignores-pending", "D-failed-insert-applied",
           "D-replay-all-blocks"}) \/
  \A c \in Colls : (Quiescent(c) /\ NoLatch(c)) =>
    LET S == st[c]  kc == KeyCol(S) IN
    kc # None =>
      /\ \A p, q \in S.seek : p[1] = q[1] => p = q
      /\ \A o \in S.live \cap S.has[kc] : <<S.data[kc][o], o>> \in S.seek
      /\ \A p \in S.seek : p[2] \in S.live \cap S.has[kc] /\ S.data[kc][p[2]] = p[1]
      /\ \A o1, o2 \in S.live \cap S.has[kc] : o1 # o2 => S.data[kc][o1] # S.data[kc][o2]

\* C11: reservations are pairwise disjoint and disjoint from live rows; at quiescence occupied = live
NoCollision ==
  Excused({"D-dead-delete", "D-failed-insert-applied"}) \/
  /\ \A t, u \in Actors : (t # u /\ txn[t].c = txn[u].c) => txn[t].reserved \cap txn[u].reserved = {}
  /\ \A t \in Actors : txn[t].c # None => txn[t].reserved \cap st[txn[t].c].live = {}
OccupiedIsLive ==
  Excused({"D-dead-delete", "D-failed-insert-applied"}) \/
  \A c \in Colls : Quiescent(c) => st[c].fill = st[c].live

\* C11: a row that is not live holds no value in any column (nothing is left behind for the next occupant)
\* (D-dead-delete: a delete of an offset that another transaction has reserved clears the reservation; two in-flight inserts
\* then hold the same offset, and the rollback of one frees the row the other has committed - its values stay behind)
NoStaleValues ==
  Excused({"D-write-dead-row", "D-failed-insert-applied", "D-dead-delete"}) \/
  \A c \in Colls : NoLatch(c) =>
    \A n \in DOMAIN st[c].reg : st[c].has[n] \subseteq st[c].live

\* C02/C11: what is occupied is exactly the committed rows plus the offsets reserved by transactions in flight
FillAccounting ==
  Excused({"D-dead-delete", "D-failed-insert-applied"}) \/
  \A c \in Colls : st[c].fill = st[c].live \cup UNION {txn[t].reserved : t \in {t \in Actors : txn[t].c = c}}

\* C15: ids are distinct, non-zero and increase per block in emission order
StreamIds ==
  \A c \in Colls :
    LET s == st[c].strm IN
    /\ \A i \in DOMAIN s : s[i].id > 0
    /\ \A i, j \in DOMAIN s : i < j => /\ s[i].id # s[j].id
                                       /\ s[i].b = s[j].b => s[i].id < s[j].id

=============================================================================
