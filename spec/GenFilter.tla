----------------------------- MODULE GenFilter -----------------------------
(***************************************************************************)
(* Generator (G): TLC enumerates every filter chain up to MaxLen over the   *)
(* operators and names below; each chain is printed as JSON and replayed on *)
(* the real code by the harness (family filt) on several data layouts, and  *)
(* the recorded executions are validated against Column.tla's FilterNames / *)
(* FilterValue actions.                                                     *)
(***************************************************************************)
EXTENDS Sequences, TLC, Json, Integers

CONSTANTS MaxLen,      \* chains of 1..MaxLen operators
          Pairs        \* BOOLEAN: name lists of two names as well

VARIABLE chain

Names == {"big", "small", "on", "a", "b", "e", "nope"}   \* three indexes, three data columns, an unknown name
NameSeqs == {<<n>> : n \in Names} \cup (IF Pairs THEN {<<n, m>> : n \in Names, m \in Names} ELSE {})
NameOps == {[f |-> f, names |-> ns] : f \in {"with", "without", "union", "withunion"}, ns \in NameSeqs}
ValueOps ==
  { [f |-> "wval",   col |-> "a", p |-> [f |-> "ge", a |-> 5]],
    [f |-> "wval",   col |-> "b", p |-> [f |-> "true", a |-> 0]],
    [f |-> "wval",   col |-> "nope", p |-> [f |-> "ge", a |-> 5]],
    [f |-> "wval",   col |-> "big", p |-> [f |-> "true", a |-> 0]],     \* WithValue on a bitmap index: membership as a value
    [f |-> "wval",   col |-> "small", p |-> [f |-> "false", a |-> 0]],
    [f |-> "wint",   col |-> "a", p |-> [f |-> "lt", a |-> 3]],
    [f |-> "wuint",  col |-> "a", p |-> [f |-> "ge", a |-> 5]],
    [f |-> "wfloat", col |-> "a", p |-> [f |-> "ge", a |-> 2]],
    [f |-> "wint",   col |-> "s", p |-> [f |-> "ge", a |-> 0]],
    [f |-> "wint",   col |-> "nope", p |-> [f |-> "ge", a |-> 0]],
    [f |-> "wstr",   col |-> "s", p |-> [f |-> "eq", a |-> <<0>>]],
    [f |-> "wstr",   col |-> "a", p |-> [f |-> "eq", a |-> <<0>>]],
    [f |-> "wstr",   col |-> "e", p |-> [f |-> "eq", a |-> "e1"]],
    [f |-> "wstr",   col |-> "e", p |-> [f |-> "eq", a |-> "e2"]],
    [f |-> "wval",   col |-> "e", p |-> [f |-> "eq", a |-> "e1"]] }
Ops == NameOps \cup ValueOps

Init == chain = <<>>
Next == Len(chain) < MaxLen /\ \E op \in Ops : chain' = Append(chain, op)
Emit == chain = <<>> \/ PrintT(ToJson(chain))
=============================================================================
