SPECIFICATION MCSpec
CONSTANTS
  Colls = {"P", "R"}
  Actors = {w1, w2, rep}
  Writers = {w1, w2}
  Snap = "none"
  SnapFails = FALSE
  Snap2 = "none"
  RstFile = "f"
  Rst = "none"
  Rep = rep
  Offsets = {0, 1, 2}
  BlockSize = 2
  Known = @KNOWN@
  History = FALSE
  Guard = @GUARD@
  Schema <- SchemaKey
  IdxDefs <- IdxNone
  SortDefs <- NoDefs
  TrigDefs <- NoDefs
  MaxOps = @MAXOPS@
  LiveChoices <- @LAYOUTS@
  HasMode = "all"
  Replica = TRUE
  Transport = "@TRANSPORT@"
  AllowFail = @FAIL@
  AllowRollback = @ROLLBACK@
  AllowDelete = TRUE
  AllowInsert = FALSE
  Keyed = TRUE
  LateInitSel = TRUE
  Late <- LateNone
  ReplayAtEnd = @ATEND@
SYMMETRY WriterSymmetry
INVARIANTS KeyCoherent FillAccounting ReadBack IndexCoherent NoCollision OccupiedIsLive NoStaleValues StreamIds Converged
PROPERTIES RollbackNoTrace
