------------------------------ MODULE MCBuffer ------------------------------
EXTENDS Buffer
CONSTANTS Offs, MaxLen
Next == \/ /\ Len(log) < MaxLen /\ ~swapped
           /\ \E k \in {"put", "mrg", "del"}, o \in Offs : Write(k, o, "v", 1)
        \/ \E i \in DOMAIN enc : \E nn \in {1, 2} : i <= Len(log) /\ Rewrite(i, "w", nn)
Spec == BInit /\ [][Next]_bvars
=============================================================================
