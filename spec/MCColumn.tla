------------------------------ MODULE MCColumn ------------------------------
(***************************************************************************)
(* Exhaustive configurations of Column.tla: a primary P (and optionally a   *)
(* replica R fed from P's stream), a schema given by constants, every       *)
(* initial layout of a small set of offsets, every actor running ONE        *)
(* transaction of at most MaxOps operations, every interleaving at the      *)
(* granularity of Column.tla's actions.                                     *)
(***************************************************************************)
EXTENDS Column

CONSTANTS Schema,     \* sequence of [n, k, m]: the data columns
          IdxDefs,    \* set of [n, col, p]: bitmap indexes present from the start
          SortDefs,   \* set of [n, col]
          TrigDefs,   \* set of [n, col]
          Writers,    \* subset of Actors that run a transaction on P
          MaxOps,     \* operations per transaction
          LiveChoices,\* set of initial live sets
          HasMode,    \* "all" | "none" | "any": which live rows hold values initially
          Replica,    \* BOOLEAN
          Transport,  \* "chan" | "log"
          AllowFail,  \* BOOLEAN: insert callbacks may fail
          AllowRollback,
          AllowDelete,
          AllowInsert,
          LateInitSel,\* BOOLEAN: the selection may be taken at any point of the body (else right after Begin)
          Keyed,      \* BOOLEAN: rows are created through InsertKey / UpsertKey (the schema has a key column)
          Snap,       \* the actor taking one snapshot of P ("none": no snapshot)
          SnapFails,  \* BOOLEAN: the snapshot's destination may fail at any point (the snapshot is then retried)
          Snap2,      \* a second actor taking one snapshot of P meanwhile ("none"): it waits while the first holds the recorder
          RstFile,    \* which of the two files ("f": Snap's, "g": Snap2's) is restored into S
          Rst,        \* the actor restoring that snapshot into S at the end
          Rep,        \* the actor replaying on R
          ReplayAtEnd,\* BOOLEAN: replay only once every writer is done (replays commute with the primary's steps)
          Late        \* schema changes between transactions: [on, idx, sort, trig, drop] (LateNone: the schema is fixed)

ColNames == {Schema[i].n : i \in DOMAIN Schema}
DescOf(n) == LET i == CHOOSE i \in DOMAIN Schema : Schema[i].n = n IN [k |-> Schema[i].k, m |-> Schema[i].m]

\* values written by the model's transactions, per kind
PutVals(d) == CASE d.k = "int" -> {1, 2} [] d.k = "str" -> {<<>>, <<1>>} [] d.k = "bool" -> {TRUE, FALSE}
                [] d.k = "enum" -> {"e1", "k9870", "k53003"} [] d.k = "key" -> {"k1", "k2"} [] OTHER -> {"x", "y"}
MrgVals(d) == CASE d.k = "int" -> {1} [] d.k = "str" -> {<<2>>} [] OTHER -> {}
InitVal(d, o) == CASE d.k = "int" -> 1 + (o % 2) [] d.k = "str" -> <<o % 2>> [] d.k = "bool" -> TRUE
                   [] d.k = "enum" -> "e1" [] d.k = "key" -> IF o % 2 = 0 THEN "k1" ELSE "k2" [] OTHER -> "x"

\* a key column needs distinct keys on live rows: only layouts with at most one row per key are started from
KeyOK(L) == \A n \in ColNames : DescOf(n).k = "key" => \A o1, o2 \in L : o1 # o2 => InitVal(DescOf(n), o1) # InitVal(DescOf(n), o2)

StoreWith(L, H) ==
  LET has  == [n \in ColNames |-> H[n]]
      data == [n \in ColNames |-> [o \in Offsets |-> IF o \in H[n] THEN InitVal(DescOf(n), o) ELSE Zero(DescOf(n))]]
      valOf(n, o) == IF DescOf(n).k = "bool" THEN TRUE ELSE data[n][o]
      kc == {n \in ColNames : DescOf(n).k = "key"}
  IN [EmptyStore EXCEPT
        !.fill = L, !.live = L,
        !.reg = [n \in ColNames |-> DescOf(n)],
        !.has = has, !.data = data,
        !.canon = [n \in {n \in ColNames : DescOf(n).k = "enum"} |-> <<>>],
        !.gt = [n \in ColNames |-> [o \in Offsets |-> IF o \in H[n] THEN <<TRUE, valOf(n, o)>> ELSE <<FALSE, Zero(DescOf(n))>>]],
        !.ix = [x \in {d.n : d \in IdxDefs} |-> LET d == CHOOSE d \in IdxDefs : d.n = x IN
                   [col |-> d.col, p |-> d.p, set |-> {o \in H[d.col] : Pred(d.p, valOf(d.col, o))}]],
        !.sx = [x \in {d.n : d \in SortDefs} |-> LET d == CHOOSE d \in SortDefs : d.n = x IN
                   [col |-> d.col, items |-> {<<data[d.col][o], o>> : o \in H[d.col]}]],
        !.tg = [x \in {d.n : d \in TrigDefs} |-> LET d == CHOOSE d \in TrigDefs : d.n = x IN [col |-> d.col]],
        !.seek = UNION {{<<data[n][o], o>> : o \in H[n]} : n \in kc},
        !.lastId = [i \in 1..(1 + MaxOf({BlockOf(o) : o \in Offsets})) |-> 0],
        !.tp = Transport]
WithHistory(S) == IF ~History THEN S ELSE [S EXCEPT !.ap = [i \in 1..(1 + MaxOf({BlockOf(o) : o \in Offsets})) |-> <<BlockProj(S, i - 1)>>]]
\* the collection the snapshot is restored into: same schema, nothing else
Fresh == [StoreWith({}, [n \in ColNames |-> {}]) EXCEPT !.lastId = <<>>]

HasChoices(L) ==
  CASE HasMode = "all"  -> {[n \in ColNames |-> L]}
    [] HasMode = "none" -> {[n \in ColNames |-> IF DescOf(n).k = "key" THEN L ELSE {}]}
    [] OTHER            -> {[n \in ColNames |-> IF DescOf(n).k = "key" THEN L ELSE T] : T \in SUBSET L}

MCInit ==
  /\ \E L \in {L \in LiveChoices : KeyOK(L)} : \E H \in HasChoices(L) :
       st = [c \in Colls |-> IF c = "P" \/ (c = "R" /\ Replica) THEN WithHistory(StoreWith(L, H))
                             ELSE IF c = "S" THEN Fresh ELSE EmptyStore]
  /\ txn = [t \in Actors |-> IdleTxn]
  /\ used = {} /\ files = EmptyFn /\ dev = {}

NOps(t) == LET b == txn[t].bufs IN
           IF DOMAIN b = {} THEN 0 ELSE
           LET F[D \in SUBSET DOMAIN b] == IF D = {} THEN 0 ELSE LET n == CHOOSE n \in D : TRUE IN Len(b[n]) + F[D \ {n}]
           IN F[DOMAIN b]
Body(t) == txn[t].pc = "body" /\ NOps(t) < MaxOps
NextId == IF used = {} THEN 1 ELSE MaxOf(used) + 1
Applying(t) == txn[t].pc = "commit"

\* rows a transaction addresses: its selection if taken, else the rows live right now, plus its own inserts
Addressable(t) == (IF txn[t].setup THEN txn[t].sel ELSE Coll(t).live) \cup txn[t].reserved

\* key calls, step by step (the lookup, then the insert, then the buffered key write, then the return)
KeyVals == {"k1", "k2"}
KC == CHOOSE n \in ColNames : DescOf(n).k = "key"
KeyWritten(t) == LET b == txn[t].bufs IN KC \in DOMAIN b /\ b[KC] # <<>> /\ LastOp(b, KC).k = "put" /\ LastOp(b, KC).v = txn[t].kop.k
                                         /\ LastOp(b, KC).o \in txn[t].reserved
KeyStep(t) ==
  LET q == txn[t].kop IN
  \/ /\ Body(t) /\ q.fn = "none"
     /\ \E fn \in {"ins", "ups", "del"}, k \in KeyVals, found \in BOOLEAN :
          \E o \in (IF found /\ \E p \in Coll(t).seek : p[1] = k THEN {p[2] : p \in {p \in Coll(t).seek : p[1] = k}} ELSE {0}) :
             KeyCheck(t, fn, k, found, o)
  \/ /\ txn[t].pc = "body" /\ q.fn \in {"ins", "ups"} /\ ~q.found /\ q.n = 0 /\ \E o \in Offsets : Reserve(t, o)
  \/ /\ txn[t].pc = "body" /\ q.fn \in {"ins", "ups"} /\ ~q.found /\ q.n = 1 /\ ~KeyWritten(t)
     /\ \E o \in txn[t].reserved : Write(t, KC, "put", o, q.k)
  \/ /\ txn[t].pc = "body" /\ q.fn = "del" /\ q.found
     /\ ~("row" \in DOMAIN txn[t].bufs /\ LastOp(txn[t].bufs, "row").k = "del" /\ LastOp(txn[t].bufs, "row").o = q.o)
     /\ Delete(t, q.o)
  \/ /\ txn[t].pc = "body" /\ q.fn # "none" /\ \E err \in BOOLEAN : KeyEnd(t, err)

WriterStep(t) ==
  \/ txn[t].pc = "idle" /\ Begin(t, "P")
  \/ Keyed /\ KeyStep(t)
  \/ /\ txn[t].pc = "body" /\ ~txn[t].setup /\ (LateInitSel \/ NOps(t) = 0)
     /\ \E sel \in {Coll(t).live \cup txn[t].reserved, Coll(t).fill} : InitSel(t, sel)
  \/ AllowInsert /\ ~Keyed /\ Body(t) /\ \E o \in Offsets : Reserve(t, o)
  \/ AllowFail /\ txn[t].pc = "body" /\ \E o \in txn[t].reserved : InsFail(t, o)
  \/ Body(t) /\ txn[t].kop.fn = "none" /\ \E n \in {n \in ColNames : DescOf(n).k # "key"} : \E o \in Addressable(t) :
        \/ \E v \in PutVals(DescOf(n)) : Write(t, n, "put", o, v)
        \/ \E v \in MrgVals(DescOf(n)) : Write(t, n, "mrg", o, v)
  \/ AllowDelete /\ Body(t) /\ txn[t].kop.fn = "none" /\ txn[t].setup /\ \E o \in txn[t].sel : Delete(t, o)
  \/ AllowRollback /\ txn[t].pc = "body" /\ txn[t].kop.fn = "none" /\ Rollback(t)
  \/ txn[t].pc = "body" /\ txn[t].kop.fn = "none" /\ CommitStart(t)

CommitStep(t) ==
  \/ Applying(t) /\ \E mode \in {"strict", "asbuilt"} : Apply(t, MinOf(txn[t].dirty), NextId, mode)
  \/ Unlatch(t)

ReplayStep ==
  /\ Replica
  /\ ReplayAtEnd => \A w \in Writers : txn[w].pc = "done"
  /\ LET i == st["R"].rp + 1 IN
     /\ i \in DOMAIN st["P"].strm
     /\ ReplayBegin(Rep, "R", st["P"].strm[i], i)

\* one snapshot of P beside the writers; once it is complete it is restored into S
SnapStep ==
  /\ Snap # "none"
  /\ \/ txn[Snap].pc = "idle" /\ SnapOpen(Snap, "P")
     \/ SnapHeader(Snap) \/ SnapBlock(Snap) \/ SnapClose(Snap) \/ SnapCopy(Snap, "f")
     \/ SnapFails /\ "f" \notin DOMAIN files /\ ~txn[Snap].replay /\ SnapFail(Snap) /\ txn'[Snap].pc = "done"
     \/ SnapFails /\ txn[Snap].pc = "done" /\ "f" \notin DOMAIN files /\ SnapOpen(Snap, "P")
\* the second snapshot: it can only install its recorder while none is installed (a refused attempt changes nothing, so it is
\* simply not enabled) - in particular between the first snapshot's detach and its return, and the other way round
Snap2Step ==
  /\ Snap2 # "none"
  /\ \/ txn[Snap2].pc = "idle" /\ SnapOpen(Snap2, "P")
     \/ SnapHeader(Snap2) \/ SnapBlock(Snap2) \/ SnapClose(Snap2) \/ SnapCopy(Snap2, "g")
RestoreStep ==
  /\ Snap # "none" /\ RstFile \in DOMAIN files
  /\ \/ txn[Rst].pc = "idle" /\ RestoreBegin(Rst, "S", RstFile, FALSE)
     \/ /\ RestoreCanLoad(Rst)
        /\ \E mode \in {"strict", "asbuilt"} :
             RestoreApply(Rst, MinOf(RestoreLoaded(Rst).dirty), NextId, mode)
     \/ txn[Rst].pc = "latched" /\ Unlatch(Rst)
     \/ txn[Rst].pc = "restoring" /\ ~RestoreCanLoad(Rst) /\ RestoreEnd(Rst, FALSE)

\* schema changes on P between transactions (the code takes no latch for them: beside running transactions they
\* race, which is C18's subject): bitmap indexes, sorted indexes and triggers created late (back-filled from the
\* data) and dropped, data columns dropped (what was computed from them stays, detached) and created again, empty
SchemaStep ==
  /\ Late.on
  /\ \A t \in Actors : txn[t].pc \in {"idle", "done"}
  /\ \/ \E d \in Late.idx : CreateIndex("P", d.n, d.col, d.p)
     \/ \E n \in DOMAIN st["P"].ix : DropIndex("P", n)
     \/ \E d \in Late.sort : CreateSort("P", d.n, d.col)
     \/ \E d \in Late.trig : CreateTrigger("P", d.n, d.col)
     \/ \E n \in DOMAIN st["P"].tg : DropTrigger("P", n)
     \/ Late.drop /\ \E n \in DOMAIN st["P"].reg : DropColumn("P", n)
     \/ \E n \in ColNames \ DOMAIN st["P"].reg : CreateColumn("P", n, DescOf(n))

MCNext ==
  \/ SnapStep \/ Snap2Step \/ RestoreStep \/ SchemaStep
  \/ \E t \in Writers : WriterStep(t) \/ CommitStep(t)
  \/ (Replica /\ (ReplayStep \/ CommitStep(Rep)))

MCSpec == MCInit /\ [][MCNext]_vars

-----------------------------------------------------------------------------
\* C06: whenever the primary is quiescent and every emitted commit has been replayed, in order, the replica
\* holds the same rows, values, index contents, key lookups and count
Converged ==
  Replica =>
   ((Quiescent("P") /\ Quiescent("R") /\ st["R"].rp = Len(st["P"].strm))
      => (Excused({"D-replay-all-blocks", "D-swap-append", "D-dead-delete", "D-write-dead-row", "D-failed-insert-applied",
                   "D-enum-collision", "D-inflight-insert-visible"})
          \/ Project(st["R"]) = Project(st["P"])))

\* C08: the restored collection's blocks each equal the primary's block after some prefix of the commits applied
\* to that block: at least those applied before the snapshot call began, at most those applied when it returned
ConsistentCut ==
  (Snap # "none" /\ RstFile \in DOMAIN files /\ txn[Rst].pc = "done") =>
     (Excused({"D-inflight-insert-visible", "D-failed-insert-applied", "D-write-dead-row", "D-dead-delete", "D-swap-append"}) \/
      \A i \in DOMAIN st["P"].ap :
         \E k \in files[RstFile].lo[i]..files[RstFile].hi[i] : BlockProj(st["S"], i - 1) = st["P"].ap[i][k])

\* C14: whenever no snapshot is running the recorder is detached
RecorderClean ==
  \A c \in Colls : (\A t \in Actors : ~(txn[t].c = c /\ txn[t].pc \in {"snap.open", "snap.blocks", "snap.closing", "snap.copy"})) => ~st[c].rec.open

\* C02: a transaction that ends without committing anything (error, or nothing buffered) leaves no trace:
\* the collection is exactly as before except that the offsets it had reserved are free again
RollbackNoTrace ==
  [][\A t \in Writers : (txn[t].pc = "body" /\ txn'[t].pc = "done") =>
        st'["P"] = [st["P"] EXCEPT !.fill = @ \ txn[t].reserved]]_vars

\* C15: each committed transaction emits exactly one commit per block it changed (checked when all are done):
\* the number of emitted commits equals the sum, over committed transactions, of their dirty blocks. In this
\* configuration every writer runs one transaction, so it is enough to bound the stream per block.
-----------------------------------------------------------------------------
\* named constants for the configuration files (cfg files cannot express records)
SchemaIntStr == << [n |-> "a", k |-> "int", m |-> "add"], [n |-> "s", k |-> "str", m |-> "concat"] >>
SchemaInt    == << [n |-> "a", k |-> "int", m |-> "add"] >>
SchemaIntAff == << [n |-> "a", k |-> "int", m |-> "affine"] >>
SchemaIntBool == << [n |-> "a", k |-> "int", m |-> "add"], [n |-> "b", k |-> "bool", m |-> ""] >>
SchemaKey    == << [n |-> "k", k |-> "key", m |-> ""], [n |-> "a", k |-> "int", m |-> "add"] >>
SchemaEnum   == << [n |-> "e", k |-> "enum", m |-> ""] >>
IdxNone == {}
IdxIntStr == { [n |-> "big", col |-> "a", p |-> [f |-> "ge", a |-> 2]], [n |-> "one", col |-> "a", p |-> [f |-> "lt", a |-> 2]],
               [n |-> "s1", col |-> "s", p |-> [f |-> "eq", a |-> <<1>>]] }
IdxInt == { [n |-> "big", col |-> "a", p |-> [f |-> "ge", a |-> 2]] }
IdxIntBool == { [n |-> "big", col |-> "a", p |-> [f |-> "ge", a |-> 2]], [n |-> "on", col |-> "b", p |-> [f |-> "true", a |-> 0]] }
SortS == { [n |-> "byS", col |-> "s"] }
TrigA == { [n |-> "ta", col |-> "a"] }
TrigAS == { [n |-> "ta", col |-> "a"], [n |-> "ts", col |-> "s"] }
NoDefs == {}
LateNone == [on |-> FALSE, idx |-> {}, sort |-> {}, trig |-> {}, drop |-> FALSE]
LateIdx  == [on |-> TRUE, idx |-> IdxIntStr, sort |-> SortS, trig |-> TrigA, drop |-> FALSE]
LateQuick == [on |-> TRUE, idx |-> IdxInt, sort |-> SortS, trig |-> {}, drop |-> FALSE]
LateCols == [on |-> TRUE, idx |-> IdxInt, sort |-> SortS, trig |-> TrigA, drop |-> TRUE]
AllLayouts == SUBSET Offsets
Layout02 == {{0, 2}}
LayoutSome == {{0, 2}, {0, 1, 2}, {1}}

View == <<st, txn, used, dev>>
WriterSymmetry == Permutations(Writers)
=============================================================================
