------------------------------- MODULE Expire -------------------------------
(***************************************************************************)
(* Time-to-live (column_expire.go): a logical clock, a deadline per row     *)
(* (0 = never expires), the vacuum transaction that decides under the read  *)
(* latch which rows have expired and deletes them in its commit, SetTTL     *)
(* (put) and Extend (merge) committed by other transactions at any time.    *)
(***************************************************************************)
EXTENDS Integers, FiniteSets, TLC

CONSTANTS Rows, MaxClock, MaxExt, Known
VARIABLES clock, live, deadline, vpc, victims, exts, dev
evars == <<clock, live, deadline, vpc, victims, exts, dev>>

EInit == /\ clock = 0 /\ live = Rows /\ deadline \in [Rows -> {0, 1, 3}]
         /\ vpc = "idle" /\ victims = {} /\ exts = 0 /\ dev = {}
Expired(r) == r \in live /\ deadline[r] # 0 /\ deadline[r] < clock

Tick == clock < MaxClock /\ clock' = clock + 1 /\ UNCHANGED <<live, deadline, vpc, victims, exts, dev>>
\* the vacuum transaction: decide under the read latch ...
VacuumScan == /\ vpc = "idle" /\ vpc' = "commit" /\ victims' = {r \in Rows : Expired(r)}
              /\ UNCHANGED <<clock, live, deadline, exts, dev>>
\* ... delete in its commit (strictly: only what is still expired; as built: every victim)
VacuumCommit ==
  /\ vpc = "commit" /\ vpc' = "idle" /\ victims' = {}
  /\ \E mode \in {"strict"} \cup (IF "D-vacuum-no-recheck" \in Known THEN {"asbuilt"} ELSE {}) :
       LET gone == IF mode = "strict" THEN {r \in victims : Expired(r)} ELSE victims IN
       /\ mode = "asbuilt" => gone # {r \in victims : Expired(r)}
       /\ live' = live \ gone
       /\ dev' = IF mode = "asbuilt" THEN dev \cup {"D-vacuum-no-recheck"} ELSE dev
  /\ UNCHANGED <<clock, deadline, exts>>
\* Extend = merge on the deadline, committed by another transaction at any time
Extend(r) == /\ exts < MaxExt /\ r \in live /\ deadline[r] # 0
             /\ deadline' = [deadline EXCEPT ![r] = @ + 2] /\ exts' = exts + 1
             /\ UNCHANGED <<clock, live, vpc, victims, dev>>
ENext == Tick \/ VacuumScan \/ VacuumCommit \/ \E r \in Rows : Extend(r)
ESpec == EInit /\ [][ENext]_evars /\ WF_evars(VacuumScan) /\ WF_evars(VacuumCommit) /\ WF_evars(Tick)

\* C17 safety: whoever disappears had a deadline that had passed at that moment
NoEarlyExpiry == [][dev' = {} => \A r \in live \ live' : deadline[r] # 0 /\ deadline[r] < clock]_evars
\* C17 liveness: an expired row goes (or stops being expired because it was extended)
ExpiredGoes == \A r \in Rows : Expired(r) ~> ~Expired(r)
NoTTLStays == [](\A r \in Rows : deadline[r] = 0 => r \in live)
=============================================================================
