------------------------------- MODULE Locks -------------------------------
(* Prototype of the lock protocol: which locks each code path holds around   *)
(* which shared variable. RW locks with Go's writer preference. Checks        *)
(* deadlock freedom (TLC) and a lockset invariant.                            *)
EXTENDS Integers, Sequences, FiniteSets, TLC

CONSTANTS Threads, Prog, KnownRacy   \* Prog: thread -> sequence of instructions; KnownRacy: set of variables
\* instruction: [op |-> "lock"|"unlock", l |-> lock, m |-> "r"|"w"]  or  [op |-> "begin"|"end", v |-> var, m |-> "r"|"w"]

LockNames == {"c", "latch0", "latch1", "col", "idx"}

VARIABLES pc,        \* thread -> index of next instruction
          holders,   \* lock -> set of <<thread, mode>>
          waitingW,  \* lock -> set of threads blocked in Lock()
          inside     \* thread -> set of <<var, mode>> currently being accessed
vars == <<pc, holders, waitingW, inside>>

Init == /\ pc = [t \in Threads |-> 1]
        /\ holders = [l \in LockNames |-> {}]
        /\ waitingW = [l \in LockNames |-> {}]
        /\ inside = [t \in Threads |-> {}]

Cur(t) == Prog[t][pc[t]]
Running(t) == pc[t] <= Len(Prog[t])
Advance(t) == pc' = [pc EXCEPT ![t] = @ + 1]

\* Lock(): first announce (so that new readers are held back), then acquire when free
Announce(t) ==
  /\ Running(t) /\ Cur(t).op = "lock" /\ Cur(t).m = "w" /\ t \notin waitingW[Cur(t).l]
  /\ waitingW' = [waitingW EXCEPT ![Cur(t).l] = @ \cup {t}]
  /\ UNCHANGED <<pc, holders, inside>>
AcquireW(t) ==
  /\ Running(t) /\ Cur(t).op = "lock" /\ Cur(t).m = "w" /\ t \in waitingW[Cur(t).l]
  /\ holders[Cur(t).l] = {}
  /\ holders' = [holders EXCEPT ![Cur(t).l] = {<<t, "w">>}]
  /\ waitingW' = [waitingW EXCEPT ![Cur(t).l] = @ \ {t}]
  /\ Advance(t) /\ UNCHANGED inside
\* RLock(): blocked by a holder in write mode and by any announced writer (writer preference)
AcquireR(t) ==
  /\ Running(t) /\ Cur(t).op = "lock" /\ Cur(t).m = "r"
  /\ \A h \in holders[Cur(t).l] : h[2] = "r"
  /\ waitingW[Cur(t).l] = {}
  /\ holders' = [holders EXCEPT ![Cur(t).l] = @ \cup {<<t, "r">>}]
  /\ Advance(t) /\ UNCHANGED <<waitingW, inside>>
Release(t) ==
  /\ Running(t) /\ Cur(t).op = "unlock"
  /\ holders' = [holders EXCEPT ![Cur(t).l] = @ \ {<<t, Cur(t).m>>}]
  /\ Advance(t) /\ UNCHANGED <<waitingW, inside>>
Begin(t) ==
  /\ Running(t) /\ Cur(t).op = "begin"
  /\ inside' = [inside EXCEPT ![t] = @ \cup {<<Cur(t).v, Cur(t).m>>}]
  /\ Advance(t) /\ UNCHANGED <<holders, waitingW>>
End(t) ==
  /\ Running(t) /\ Cur(t).op = "end"
  /\ inside' = [inside EXCEPT ![t] = {a \in @ : a[1] # Cur(t).v}]
  /\ Advance(t) /\ UNCHANGED <<holders, waitingW>>

Step(t) == Announce(t) \/ AcquireW(t) \/ AcquireR(t) \/ Release(t) \/ Begin(t) \/ End(t)
AllDone == \A t \in Threads : ~Running(t)
Next == (\E t \in Threads : Step(t)) \/ (AllDone /\ UNCHANGED vars)
Spec == Init /\ [][Next]_vars /\ \A t \in Threads : WF_vars(Step(t))

\* two accesses are ordered if some lock is held by both threads, by at least one of them exclusively
Held(t) == {<<l, m>> \in LockNames \X {"r", "w"} : <<t, m>> \in holders[l]}
Ordered(t1, t2) == \E l \in LockNames : (<<t1, "w">> \in holders[l] /\ \E m \in {"r","w"} : <<t2, m>> \in holders[l])
                                      \/ (<<t2, "w">> \in holders[l] /\ \E m \in {"r","w"} : <<t1, m>> \in holders[l])
\* (a write holder excludes everyone, so "both hold it" can only be the same thread; the useful
\*  reading is: both accesses happen while holding l and one of the two holds it in write mode.
\*  Since a write holder is exclusive, two threads can never be simultaneously inside under it:
\*  the invariant is simply that conflicting simultaneous accesses never happen.)
Conflicts == {<<t1, t2, a[1]>> : t1 \in Threads, t2 \in Threads, a \in UNION {inside[t] : t \in Threads}} 
RaceOn(v) == \E t1, t2 \in Threads : t1 # t2 /\ \E m1, m2 \in {"r", "w"} :
                <<v, m1>> \in inside[t1] /\ <<v, m2>> \in inside[t2] /\ (m1 = "w" \/ m2 = "w")
Vars == {"fill", "count", "commitsLen", "commits0", "commits1", "colList", "data0", "data1", "registry", "idxFill"}
NoRace == \A v \in Vars \ KnownRacy : ~RaceOn(v)
Termination == <>AllDone
=============================================================================
