SPECIFICATION Spec
CONSTANTS
  BlockSize = 2
  Offs = {0, 1, 2, 3, 4}
  MaxLen = @MAXLEN@
  Known = @KNOWN@
INVARIANTS RoundTrip ChainSound AfterRewrite
CHECK_DEADLOCK FALSE
