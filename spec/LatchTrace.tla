---------------------------- MODULE LatchTrace ----------------------------
(***************************************************************************)
(* Validation of real executions for C10.  Under real parallelism writers   *)
(* keep the invariant (a, b, s) = (k, 2k, "v"k) on every row; readers       *)
(* report, per row, the distinct triples they read inside ONE callback:     *)
(* each must be a version that was committed (order-insensitive, so no      *)
(* assumption on cross-goroutine event order).  Deterministic probes: while *)
(* a writer sits inside the logger callback (latch held) a reader of the    *)
(* same block must not complete, a reader of another block must.            *)
(***************************************************************************)
EXTENDS Integers, Sequences, FiniteSets, TLC, Json, IOUtils, TLCExt
TraceLog == ndJsonDeserialize(IOEnv.TRACE)
VARIABLES l, maxv, held
tvars == <<l, maxv, held>>
Ev == TraceLog[l]
Is(e) == l <= Len(TraceLog) /\ Ev.e = e /\ l' = l + 1
TInit == l = 2 /\ maxv = <<>> /\ held = {}
TReset == Is("reset") /\ maxv' = <<>> /\ held' = {}
\* versions 0..k of row o have been committed by the end of the run
TMax  == Is("lmax") /\ maxv' = [x \in DOMAIN maxv \cup {Ev.o} |-> IF x = Ev.o THEN Ev.k ELSE maxv[x]] /\ UNCHANGED held
\* the distinct triples <<a, b, s>> some reader saw on row o inside one callback
TRead == /\ Is("lread") /\ UNCHANGED <<maxv, held>>
         /\ Ev.o \in DOMAIN maxv
         \* the set is logged run-length encoded (lossless): <<a, b, s, n>> stands for the triples <<a+i, b+2i, s+i>>, i < n.
         \* Every one of them is a committed version <<k, 2k, k>>, 0 <= k <= maxv, iff the first one is and the last one's
         \* k does not exceed maxv (the three components advance in step with k).
         /\ \A j \in DOMAIN Ev.runs :
              LET r == Ev.runs[j] IN r[4] >= 1 /\ r[2] = 2 * r[1] /\ r[3] = r[1] /\ 0 <= r[1] /\ r[1] + r[4] - 1 <= maxv[Ev.o]
\* probes
THeld == Is("lheld") /\ held' = held \cup {Ev.b} /\ UNCHANGED maxv
TRel  == Is("lrel")  /\ held' = held \ {Ev.b} /\ UNCHANGED maxv
TProbe == Is("lprobe") /\ UNCHANGED <<maxv, held>> /\ Ev.completed = (Ev.rb \notin held)
TNext == TReset \/ TMax \/ TRead \/ THeld \/ TRel \/ TProbe
TSpec == TInit /\ [][TNext]_tvars
Record == TLCSet(1, <<IF l > TLCGet(1)[1] THEN l ELSE TLCGet(1)[1], {}>>)
ASSUME TLCSet(1, <<0, {}>>)
Accepted == /\ PrintT(<<"DEV", TLCGet(1)[2]>>)
            /\ PrintT(<<"MATCHED", TLCGet(1)[1] - 1, Len(TraceLog)>>)
            /\ TLCGet(1)[1] - 1 = Len(TraceLog)
Diag == <<"event", Ev, "maxv", maxv, "held", held>>
=============================================================================
