---------------------------- MODULE LatchTrace ----------------------------
(***************************************************************************)
(* Validation of real executions for C10.  Under real parallelism writers   *)
(* keep the invariant (a, b, s) = (k, 2k, "v"k) on every row; readers       *)
(* report, per row, the distinct triples they read inside ONE callback:     *)
(* each must be a version that was committed (order-insensitive, so no      *)
(* assumption on cross-goroutine event order).  Deterministic probes: while *)
(* a writer sits inside the logger callback (latch held) a reader of the    *)
(* same block must not complete, a reader of another block must.            *)
(***************************************************************************)
EXTENDS Integers, Sequences, FiniteSets, TLC, Json, IOUtils, TLCExt
TraceLog == ndJsonDeserialize(IOEnv.TRACE)
CONSTANTS Known
VARIABLES l, maxv, held, dev
tvars == <<l, maxv, held, dev>>
Ev == TraceLog[l]
Is(e) == l <= Len(TraceLog) /\ Ev.e = e /\ l' = l + 1
TInit == l = 2 /\ maxv = <<>> /\ held = {} /\ dev = {}
TReset == Is("reset") /\ maxv' = <<>> /\ held' = {} /\ dev' = {}
\* versions 0..k of row o have been committed by the end of the run
TMax  == Is("lmax") /\ maxv' = [x \in DOMAIN maxv \cup {Ev.o} |-> IF x = Ev.o THEN Ev.k ELSE maxv[x]] /\ UNCHANGED <<held, dev>>
\* the distinct triples <<a, b, s>> some reader saw on row o inside one callback
\* The set is logged run-length encoded (lossless): <<a, b, s, n>> stands for the triples <<a+i, b+2i, s+i>>, i < n.
\* Every one of them is a committed version <<k, 2k, k>>, 0 <= k <= maxv, iff the first one is and the last one's
\* k does not exceed maxv (the three components advance in step with k).
Whole(r, mx) == r[4] >= 1 /\ r[2] = 2 * r[1] /\ r[3] = r[1] /\ 0 <= r[1] /\ r[1] + r[4] - 1 <= mx
\* each component on its own is a value that some transaction committed
Parts(r, mx) == /\ r[4] >= 1 /\ 0 <= r[1] /\ r[1] + r[4] - 1 <= mx
                /\ r[2] % 2 = 0 /\ 0 <= r[2] /\ r[2] \div 2 + r[4] - 1 <= mx
                /\ 0 <= r[3] /\ r[3] + r[4] - 1 <= mx
TRead == /\ Is("lread") /\ UNCHANGED <<maxv, held>>
         /\ Ev.o \in DOMAIN maxv
         /\ \E mode \in {"strict"} \cup (IF Ev.how = "ascend" /\ "D-ascend-no-latch" \in Known THEN {"asbuilt"} ELSE {}) :
              /\ IF mode = "strict" THEN \A j \in DOMAIN Ev.runs : Whole(Ev.runs[j], maxv[Ev.o])
                 ELSE /\ \E j \in DOMAIN Ev.runs : ~Whole(Ev.runs[j], maxv[Ev.o])
                      /\ \A j \in DOMAIN Ev.runs : Parts(Ev.runs[j], maxv[Ev.o])
              /\ dev' = IF mode = "asbuilt" THEN dev \cup {"D-ascend-no-latch"} ELSE dev
\* probes
THeld == Is("lheld") /\ held' = held \cup {Ev.b} /\ UNCHANGED <<maxv, dev>>
TRel  == Is("lrel")  /\ held' = held \ {Ev.b} /\ UNCHANGED <<maxv, dev>>
TProbe == Is("lprobe") /\ UNCHANGED <<maxv, held, dev>> /\ Ev.completed = (Ev.rb \notin held)
\* a writer died inside the latch (its user code panicked between two columns of its commit, the caller recovered): a reader
\* either does not get in, or sees the row's only committed version
TPanic == Is("lpanic") /\ UNCHANGED <<maxv, held, dev>> /\ (Ev.completed => (Ev.a = 0 /\ Ev.b = 0))
TNext == TReset \/ TMax \/ TRead \/ THeld \/ TRel \/ TProbe \/ TPanic
TSpec == TInit /\ [][TNext]_tvars
Record == TLCSet(1, <<IF l > TLCGet(1)[1] THEN l ELSE TLCGet(1)[1], TLCGet(1)[2] \cup dev>>)
ASSUME TLCSet(1, <<0, {}>>)
Accepted == /\ PrintT(<<"DEV", TLCGet(1)[2]>>)
            /\ PrintT(<<"MATCHED", TLCGet(1)[1] - 1, Len(TraceLog)>>)
            /\ TLCGet(1)[1] - 1 = Len(TraceLog)
Diag == <<"event", Ev, "maxv", maxv, "held", held>>
=============================================================================
