---------------------------- MODULE PrefixTrace ----------------------------
(***************************************************************************)
(* C13 at scale (states spanning several compression frames): what a        *)
(* Restore of a truncated snapshot applied must be a PREFIX of what the      *)
(* Restore of the whole file applies (block images, then recorded commits), *)
(* each item whole: items are compared by a digest of their decoded         *)
(* operations, computed by the harness inside the restoring collection's    *)
(* logger. Success is only allowed once every block image has been applied. *)
(***************************************************************************)
EXTENDS Integers, Sequences, TLC, Json, IOUtils, TLCExt

TraceLog == ndJsonDeserialize(IOEnv.TRACE)
VARIABLES l, ref, nb, pos
tvars == <<l, ref, nb, pos>>
Ev == TraceLog[l]
Is(e) == l <= Len(TraceLog) /\ Ev.e = e /\ l' = l + 1
TInit == l = 2 /\ ref = <<>> /\ nb = 0 /\ pos = 0
TReset == Is("reset") /\ ref' = <<>> /\ nb' = 0 /\ pos' = 0
\* the reference: the items applied by restoring the intact file, the first nb of them block images
\* - and the rest exactly the commits the source made while the snapshot was written (all of them at its end, after the last
\* block image: so every one is in the recorded log), ONE item per commit: a commit boundary of the file is a commit of the source
TRef   == Is("pref")   /\ ref' = Ev.items /\ nb' = Ev.nb /\ pos' = 0
          /\ Len(Ev.items) = Ev.nb + Len(Ev.rec)
          /\ \A i \in 1..Len(Ev.rec) : Ev.items[Ev.nb + i] = Ev.rec[i]
TBegin == Is("pbegin") /\ pos' = 0 /\ UNCHANGED <<ref, nb>>
\* the next item applied by a restore of a prefix: exactly the next reference item
TItem  == Is("pitem")  /\ pos < Len(ref) /\ Ev.digest = ref[pos + 1] /\ pos' = pos + 1 /\ UNCHANGED <<ref, nb>>
\* it returns: without error only if all block images were applied (then: blocks + a prefix of the commits)
TEnd   == Is("pend")   /\ (~Ev.err => pos >= nb) /\ UNCHANGED <<ref, nb, pos>>
TNext == TReset \/ TRef \/ TBegin \/ TItem \/ TEnd
TSpec == TInit /\ [][TNext]_tvars
Record == TLCSet(1, <<IF l > TLCGet(1)[1] THEN l ELSE TLCGet(1)[1], {}>>)
ASSUME TLCSet(1, <<0, {}>>)
Accepted == /\ PrintT(<<"DEV", TLCGet(1)[2]>>)
            /\ PrintT(<<"MATCHED", TLCGet(1)[1] - 1, Len(TraceLog)>>)
            /\ TLCGet(1)[1] - 1 = Len(TraceLog)
Diag == <<"event", Ev, "pos", pos, "nb", nb, "next", IF pos < Len(ref) THEN ref[pos + 1] ELSE "none">>
=============================================================================
