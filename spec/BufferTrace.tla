---------------------------- MODULE BufferTrace ----------------------------
(* Trace validation of real commit.Buffer / Reader / Commit / Log executions against Buffer.tla. *)
EXTENDS Buffer, Json, IOUtils, TLCExt, SequencesExt

TraceLog == ndJsonDeserialize(IOEnv.TRACE)
TraceBlock == TraceLog[1].blocksize
VARIABLE l
tvars == <<bvars, l>>
Ev == TraceLog[l]
Is(e) == l <= Len(TraceLog) /\ Ev.e = e /\ l' = l + 1
TInit == BInit /\ l = 2

Plain(q) == [i \in DOMAIN q |-> [k |-> q[i].k, o |-> q[i].o, v |-> q[i].v]]
PerRow(q) == [o \in {q[i].o : i \in DOMAIN q} |-> Plain(OfOffset(q, o))]

TReset == Is("reset") /\ log' = <<>> /\ enc' = <<>> /\ secs' = <<>> /\ last' = 0 /\ cur' = NoBlock /\ swapped' = FALSE /\ dev' = {}
TNew   == Is("bnew")  /\ log' = <<>> /\ enc' = <<>> /\ secs' = <<>> /\ last' = 0 /\ cur' = NoBlock /\ swapped' = FALSE /\ dev' = dev
TWrite == Is("bw")    /\ Write(Ev.k, Ev.o, Ev.v, Ev.n)
\* the section structure the real buffer exposes (Buffer.RangeChunks)
TSecs  == Is("bsecs") /\ UNCHANGED bvars /\ Ev.chunks = [i \in DOMAIN secs |-> secs[i].b]
\* the harness rewrites the idx-th operation (in write order) of the buffer, a merge, through the real Reader.Swap*
TSwap  == Is("bswap") /\ Rewrite(Ev.i, Ev.v, Ev.n)
\* what a reader returned: via = direct | buffer-codec | commit-codec | log ; how = all | block
TRead ==
  /\ Is("bread") /\ UNCHANGED bvars
  /\ LET want == IF Ev.how = "all" THEN NoSkip(ReadAll(enc)) ELSE NoSkip(ReadBlock(enc, secs, Ev.b)) IN
     IF swapped THEN PerRow(want) = PerRow(Ev.ops) ELSE Plain(want) = Ev.ops

TNext == TReset \/ TNew \/ TWrite \/ TSecs \/ TSwap \/ TRead
TSpec == TInit /\ [][TNext]_tvars

Record == TLCSet(1, <<IF l > TLCGet(1)[1] THEN l ELSE TLCGet(1)[1], TLCGet(1)[2] \cup dev>>)
ASSUME TLCSet(1, <<0, {}>>)
Accepted == /\ PrintT(<<"DEV", TLCGet(1)[2]>>)
            /\ PrintT(<<"MATCHED", TLCGet(1)[1] - 1, Len(TraceLog)>>)
            /\ TLCGet(1)[1] - 1 = Len(TraceLog)
Diag == <<"event", Ev, "readall", NoSkip(ReadAll(enc)), "secs", secs>>
=============================================================================
