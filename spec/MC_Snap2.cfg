SPECIFICATION MCSpec
CONSTANTS
  Colls = {"P", "S"}
  Actors = {w1, sn, sn2, rs, rep}
  Writers = {w1}
  Snap = sn
  SnapFails = @SNAPFAILS@
  Snap2 = sn2
  RstFile = "@RSTFILE@"
  Rst = rs
  Rep = rep
  Offsets = {0, 1, 2}
  BlockSize = 2
  Known = @KNOWN@
  History = TRUE
  Guard = @GUARD@
  Schema <- SchemaInt
  IdxDefs <- IdxInt
  SortDefs <- NoDefs
  TrigDefs <- NoDefs
  MaxOps = @MAXOPS@
  LiveChoices <- @LAYOUTS@
  HasMode = "all"
  Replica = FALSE
  Transport = "@TRANSPORT@"
  AllowFail = @FAIL@
  AllowRollback = @ROLLBACK@
  AllowDelete = TRUE
  AllowInsert = TRUE
  Keyed = FALSE
  LateInitSel = TRUE
  Late <- LateNone
  ReplayAtEnd = @ATEND@
INVARIANTS RecorderClean ConsistentCut FillAccounting ReadBack IndexCoherent NoCollision OccupiedIsLive NoStaleValues StreamIds Converged
PROPERTIES RollbackNoTrace
