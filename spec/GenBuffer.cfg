INIT Init
NEXT Next
CONSTANTS
  MaxLen = @MAXLEN@
  Kinds = @KINDS@
  Widths = @WIDTHS@
  Moves = @MOVES@
INVARIANT Emit
CHECK_DEADLOCK FALSE
