------------------------------- MODULE Buffer -------------------------------
(***************************************************************************)
(* The commit buffer (commit/buffer.go, commit/reader.go) as an abstract    *)
(* data type at the grain that matters for C05: operations are appended     *)
(* with their offset DELTA to the previously written operation; whenever    *)
(* the 16K block of the offset differs from the block of the previous write *)
(* a SECTION header (block, start position, offset before) is added.        *)
(* Readers: ReadAll walks the delta chain from 0 (Reader.Seek + Next);      *)
(* ReadBlock(b) visits the sections of block b, each restarting the chain   *)
(* at its header's value (Reader.Range).  A reader may rewrite a merge into *)
(* a put of its result: in place when the result has the same length, else  *)
(* (as built) by marking it "skip" and appending a put at the end.          *)
(* Values are opaque tokens with a byte length.                             *)
(***************************************************************************)
EXTENDS Integers, Sequences, FiniteSets, TLC

CONSTANTS BlockSize, Known
BlockOf(o) == o \div BlockSize
NoBlock == -1

VARIABLES log,    \* what the writer asked for: seq of [k, o, v, n]   (n = byte length of the value)
          enc,    \* encoded ops: seq of [k, d, v, n]  (d = offset delta to the previous op written)
          secs,   \* section headers: seq of [b, start, val]  (start = index into enc, val = offset before)
          last, cur,
          swapped,\* has any merge been rewritten yet
          dev
bvars == <<log, enc, secs, last, cur, swapped, dev>>

BInit == log = <<>> /\ enc = <<>> /\ secs = <<>> /\ last = 0 /\ cur = NoBlock /\ swapped = FALSE /\ dev = {}

\* ---- writer (Buffer.writeChunk + Put*)
Encode(e, s, l, c, k, o, v, n) ==
  LET b == BlockOf(o)
      s2 == IF c # b THEN Append(s, [b |-> b, start |-> Len(e) + 1, val |-> l]) ELSE s
  IN [enc |-> Append(e, [k |-> k, d |-> o - l, v |-> v, n |-> n]), secs |-> s2, last |-> o, cur |-> b]

Write(k, o, v, n) ==
  /\ LET r == Encode(enc, secs, last, cur, k, o, v, n) IN
       enc' = r.enc /\ secs' = r.secs /\ last' = r.last /\ cur' = r.cur
  /\ log' = Append(log, [k |-> k, o |-> o, v |-> v, n |-> n])
  /\ UNCHANGED <<swapped, dev>>

\* ---- readers
RECURSIVE Walk(_, _, _, _)
Walk(e, i, hi, off) ==   \* decode enc[i..hi] starting from running offset off
  IF i > hi THEN <<>> ELSE
  LET o == off + e[i].d IN <<[k |-> e[i].k, o |-> o, v |-> e[i].v, n |-> e[i].n]>> \o Walk(e, i + 1, hi, o)

ReadAll(e) == Walk(e, 1, Len(e), 0)
SecEnd(s, e, i) == IF i < Len(s) THEN s[i + 1].start - 1 ELSE Len(e)
RECURSIVE ReadBlockFrom(_, _, _, _)
ReadBlockFrom(e, s, b, i) ==
  IF i > Len(s) THEN <<>> ELSE
  (IF s[i].b = b THEN Walk(e, s[i].start, SecEnd(s, e, i), s[i].val) ELSE <<>>) \o ReadBlockFrom(e, s, b, i + 1)
ReadBlock(e, s, b) == ReadBlockFrom(e, s, b, 1)

NoSkip(q) == SelectSeq(q, LAMBDA x : x.k # "skip")
OfBlock(q, b) == SelectSeq(q, LAMBDA x : BlockOf(x.o) = b)
OfOffset(q, o) == SelectSeq(q, LAMBDA x : x.o = o)
Blocks == {BlockOf(log[i].o) : i \in DOMAIN log}
OffsetsUsed == {log[i].o : i \in DOMAIN log}

\* ---- rewrite of the i-th encoded operation (a merge) into a put of value nv with byte length nn
OffsetAt(i) == ReadAll(enc)[i].o
Rewrite(i, nv, nn) ==
  /\ i \in DOMAIN enc /\ enc[i].k = "mrg"
  /\ \E mode \in {"inplace"} \cup (IF "D-swap-append" \in Known /\ nn # enc[i].n THEN {"append"} ELSE {}) :
       \* as built a result of another length cannot be rewritten in place; strictly it always is
       /\ ("D-swap-append" \in Known /\ nn # enc[i].n) => mode = "append"
       /\ IF mode = "inplace"
            THEN /\ enc' = [enc EXCEPT ![i] = [k |-> "put", d |-> @.d, v |-> nv, n |-> nn]]
                 /\ UNCHANGED <<secs, last, cur, dev>>
            ELSE LET r == Encode([enc EXCEPT ![i].k = "skip"], secs, last, cur, "put", OffsetAt(i), nv, nn) IN
                 /\ enc' = r.enc /\ secs' = r.secs /\ last' = r.last /\ cur' = r.cur
                 /\ dev' = IF \E j \in (i + 1)..Len(enc) : OffsetAt(j) = OffsetAt(i) /\ enc[j].k # "skip"
                           THEN dev \cup {"D-swap-append"} ELSE dev
  /\ log' = [log EXCEPT ![CHOOSE j \in DOMAIN log : j = i] = [k |-> "put", o |-> @.o, v |-> nv, n |-> nn]]
  /\ swapped' = TRUE

-----------------------------------------------------------------------------
\* C05: what every reader must return
\* before any rewrite: exactly what was written, in order; one block: that block's operations in write order
RoundTrip ==
  ~swapped => /\ ReadAll(enc) = log
              /\ \A b \in Blocks : ReadBlock(enc, secs, b) = OfBlock(log, b)
\* whatever was appended, the delta chain stays decodable and block reads agree with the full read
ChainSound ==
  \A b \in Blocks : \A o \in OffsetsUsed :
     OfOffset(NoSkip(ReadBlock(enc, secs, b)), o) = OfOffset(OfBlock(NoSkip(ReadAll(enc)), b), o)
\* after rewrites every offset shows its operations in write order with the merges turned into puts
\* (log carries the rewritten form at the position of the original)
AfterRewrite ==
  dev # {} \/ \A o \in OffsetsUsed : OfOffset(NoSkip(ReadAll(enc)), o) = OfOffset(log, o)
=============================================================================
