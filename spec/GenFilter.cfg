INIT Init
NEXT Next
CONSTANTS
  MaxLen = @MAXLEN@
  Pairs = @PAIRS@
INVARIANT Emit
CHECK_DEADLOCK FALSE
