SPECIFICATION TSpec
CONSTANTS
  Known = @KNOWN@
CONSTRAINT Record
POSTCONDITION Accepted
CHECK_DEADLOCK FALSE
