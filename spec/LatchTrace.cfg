SPECIFICATION TSpec
CONSTRAINT Record
POSTCONDITION Accepted
CHECK_DEADLOCK FALSE
