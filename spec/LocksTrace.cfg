SPECIFICATION TSpec
CONSTANTS
  Known = @KNOWN@
  KnownRacy = {"registry", "colList", "data", "idxFill"}
CONSTRAINT Record
POSTCONDITION Accepted
CHECK_DEADLOCK FALSE
