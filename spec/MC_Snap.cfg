SPECIFICATION MCSpec
CONSTANTS
  Colls = {"P", "S"}
  Actors = {w1, w2, sn, rs, rep}
  Writers = {w1, w2}
  Snap = sn
  SnapFails = @SNAPFAILS@
  Rst = rs
  Rep = rep
  Offsets = {0, 1, 2}
  BlockSize = 2
  Known = @KNOWN@
  History = TRUE
  Guard = @GUARD@
  Schema <- SchemaInt
  IdxDefs <- IdxInt
  SortDefs <- NoDefs
  TrigDefs <- NoDefs
  MaxOps = @MAXOPS@
  LiveChoices <- @LAYOUTS@
  HasMode = "all"
  Replica = FALSE
  Transport = "@TRANSPORT@"
  AllowFail = @FAIL@
  AllowRollback = @ROLLBACK@
  AllowDelete = TRUE
  AllowInsert = TRUE
  Keyed = FALSE
  LateInitSel = TRUE
  Late <- LateNone
  ReplayAtEnd = @ATEND@
SYMMETRY WriterSymmetry
INVARIANTS RecorderClean ConsistentCut FillAccounting ReadBack IndexCoherent NoCollision OccupiedIsLive NoStaleValues StreamIds Converged
PROPERTIES RollbackNoTrace
