SPECIFICATION LSpec
CONSTANTS
  Writers = {w1, w2}
  Readers = {r1, r2}
  ReadLatch = @READLATCH@
  MaxV = 3
INVARIANTS NoTornRead Exclusion
CHECK_DEADLOCK FALSE
