SPECIFICATION LSpec
CONSTANTS
  Writers = {w1, w2}
  Readers = {r1, r2}
  AscReaders = {r2}
  Known = @KNOWN@
  ReadLatch = @READLATCH@
  MaxV = 3
INVARIANTS NoTornRead CommittedValues Exclusion
CHECK_DEADLOCK FALSE
