------------------------------- MODULE Latch -------------------------------
(***************************************************************************)
(* The commit and read paths at single-column grain (C10): a writer takes   *)
(* the block's write latch, writes column a, then column b, releases; a     *)
(* reader takes the read latch, reads a, then b, inside one callback.       *)
(* ReadLatch = FALSE models a reader that forgets the latch.                *)
(* AscReaders iterate through a sorted index (Txn.Ascend): as built         *)
(* (D-ascend-no-latch) their callback runs without the latch - the code     *)
(* has it commented out, because a commit holds the latch while it waits    *)
(* for the tree that the scan holds.                                        *)
(***************************************************************************)
EXTENDS Integers, FiniteSets, TLC
CONSTANTS Writers, Readers, AscReaders, ReadLatch, MaxV, Known
VARIABLES a, b, wHolder, rHolders, wpc, rpc, got, versions, nextV
lvars == <<a, b, wHolder, rHolders, wpc, rpc, got, versions, nextV>>
None == "none"
LInit == /\ a = 0 /\ b = 0 /\ wHolder = None /\ rHolders = {} /\ nextV = 1
         /\ wpc = [w \in Writers |-> "idle"] /\ rpc = [r \in Readers |-> "idle"]
         /\ got = [r \in Readers |-> <<0, 0>>] /\ versions = {<<0, 0>>}
\* version k of the row is (k, 2k)
WLock(w)  == wpc[w] = "idle" /\ wHolder = None /\ rHolders = {} /\ nextV <= MaxV
             /\ wHolder' = w /\ wpc' = [wpc EXCEPT ![w] = "a"] /\ UNCHANGED <<a, b, rHolders, rpc, got, versions, nextV>>
WriteA(w) == wpc[w] = "a" /\ a' = nextV /\ wpc' = [wpc EXCEPT ![w] = "b"] /\ UNCHANGED <<b, wHolder, rHolders, rpc, got, versions, nextV>>
WriteB(w) == wpc[w] = "b" /\ b' = 2 * nextV /\ versions' = versions \cup {<<nextV, 2 * nextV>>} /\ nextV' = nextV + 1
             /\ wpc' = [wpc EXCEPT ![w] = "u"] /\ UNCHANGED <<a, wHolder, rHolders, rpc, got>>
WUnlock(w) == wpc[w] = "u" /\ wHolder' = None /\ wpc' = [wpc EXCEPT ![w] = "idle"] /\ UNCHANGED <<a, b, rHolders, rpc, got, versions, nextV>>
Unlatched(r) == r \in AscReaders /\ "D-ascend-no-latch" \in Known
Latched(r) == ReadLatch /\ ~Unlatched(r)
RLock(r)  == rpc[r] = "idle" /\ (Latched(r) => wHolder = None)
             /\ rHolders' = (IF Latched(r) THEN rHolders \cup {r} ELSE rHolders)
             /\ rpc' = [rpc EXCEPT ![r] = "a"] /\ UNCHANGED <<a, b, wHolder, wpc, got, versions, nextV>>
ReadA(r)  == rpc[r] = "a" /\ got' = [got EXCEPT ![r][1] = a] /\ rpc' = [rpc EXCEPT ![r] = "b"] /\ UNCHANGED <<a, b, wHolder, rHolders, wpc, versions, nextV>>
ReadB(r)  == rpc[r] = "b" /\ got' = [got EXCEPT ![r][2] = b] /\ rpc' = [rpc EXCEPT ![r] = "done"] /\ UNCHANGED <<a, b, wHolder, rHolders, wpc, versions, nextV>>
RUnlock(r) == rpc[r] = "done" /\ rHolders' = rHolders \ {r} /\ rpc' = [rpc EXCEPT ![r] = "idle"] /\ UNCHANGED <<a, b, wHolder, wpc, got, versions, nextV>>
LNext == (\E w \in Writers : WLock(w) \/ WriteA(w) \/ WriteB(w) \/ WUnlock(w))
         \/ (\E r \in Readers : RLock(r) \/ ReadA(r) \/ ReadB(r) \/ RUnlock(r))
LSpec == LInit /\ [][LNext]_lvars
\* C10: what a reader holds when it finishes its callback is one committed version of the row
NoTornRead == \A r \in Readers : rpc[r] = "done" => (got[r] \in versions \/ Unlatched(r))
\* ... and even an unlatched reader only ever reads values of versions that are committed or being committed
InFlight == IF wHolder # None THEN {<<nextV, 2 * nextV>>} ELSE {}
CommittedValues == \A r \in Readers : rpc[r] = "done" =>
                     /\ \E v \in versions \cup InFlight : v[1] = got[r][1]
                     /\ \E v \in versions \cup InFlight : v[2] = got[r][2]
\* a reader never runs inside a writer's critical section
Exclusion == wHolder # None => rHolders = {}
=============================================================================
