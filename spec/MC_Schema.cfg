SPECIFICATION MCSpec
CONSTANTS
  Colls = {"P"}
  Actors = {w1, w2}
  Writers = {w1, w2}
  Snap = "none"
  SnapFails = FALSE
  Snap2 = "none"
  RstFile = "f"
  Rst = "none"
  Rep = "rep"
  Offsets = {0, 1, 2}
  BlockSize = 2
  Known = @KNOWN@
  History = FALSE
  Guard = @GUARD@
  Schema <- SchemaIntStr
  IdxDefs <- @IDX@
  SortDefs <- @SORT@
  TrigDefs <- NoDefs
  MaxOps = @MAXOPS@
  LiveChoices <- @LAYOUTS@
  HasMode = "all"
  Replica = FALSE
  Transport = "log"
  AllowFail = FALSE
  AllowRollback = FALSE
  AllowDelete = TRUE
  AllowInsert = TRUE
  Keyed = FALSE
  LateInitSel = FALSE
  Late <- @LATE@
  ReplayAtEnd = TRUE
SYMMETRY WriterSymmetry
INVARIANTS FillAccounting ReadBack IndexCoherent SortCoherent NoCollision OccupiedIsLive NoStaleValues StreamIds
