------------------------------ MODULE LatchInd ------------------------------
(***************************************************************************)
(* Latch.tla with type annotations for Apalache and an inductive invariant *)
(* that implies NoTornRead for ANY number of committed versions (no MaxV): *)
(*   Init => IndInv                  (apalache-mc --init=Init --length=0)  *)
(*   IndInv /\ Next => IndInv'       (--init=IndInit --length=1)           *)
(*   IndInv => NoTornRead            (--init=IndInit --inv=NoTornRead)     *)
(* Readers all take the latch here (the strict protocol); dropping the     *)
(* guard of RLock makes the second step fail (negative control, run by the *)
(* check). 2 writers, 2 readers; values and versions range over Int.       *)
(***************************************************************************)
EXTENDS Integers, FiniteSets
CONSTANTS
  \* @type: Set(Str);
  Writers,
  \* @type: Set(Str);
  Readers
VARIABLES
  \* @type: Int;
  a,
  \* @type: Int;
  b,
  \* @type: Str;
  wHolder,
  \* @type: Set(Str);
  rHolders,
  \* @type: Str -> Str;
  wpc,
  \* @type: Str -> Str;
  rpc,
  \* @type: Str -> Int;
  gotA,
  \* @type: Str -> Int;
  gotB,
  \* @type: Int;
  nextV

CInit == Writers = {"w1", "w2"} /\ Readers = {"r1", "r2"}
None == "none"
\* version k of the row is (k, 2k); the committed versions are exactly 0 .. nextV - 1
\* @type: (<<Int, Int>>) => Bool;
IsVersion(p) == p[1] >= 0 /\ p[1] < nextV /\ p[2] = 2 * p[1]

Init == /\ a = 0 /\ b = 0 /\ wHolder = None /\ rHolders = {} /\ nextV = 1
        /\ wpc = [w \in Writers |-> "idle"] /\ rpc = [r \in Readers |-> "idle"]
        /\ gotA = [r \in Readers |-> 0] /\ gotB = [r \in Readers |-> 0]
WLock(w)  == wpc[w] = "idle" /\ wHolder = None /\ rHolders = {}
             /\ wHolder' = w /\ wpc' = [wpc EXCEPT ![w] = "a"] /\ UNCHANGED <<a, b, rHolders, rpc, gotA, gotB, nextV>>
WriteA(w) == wpc[w] = "a" /\ a' = nextV /\ wpc' = [wpc EXCEPT ![w] = "b"] /\ UNCHANGED <<b, wHolder, rHolders, rpc, gotA, gotB, nextV>>
WriteB(w) == wpc[w] = "b" /\ b' = 2 * nextV /\ nextV' = nextV + 1
             /\ wpc' = [wpc EXCEPT ![w] = "u"] /\ UNCHANGED <<a, wHolder, rHolders, rpc, gotA, gotB>>
WUnlock(w) == wpc[w] = "u" /\ wHolder' = None /\ wpc' = [wpc EXCEPT ![w] = "idle"] /\ UNCHANGED <<a, b, rHolders, rpc, gotA, gotB, nextV>>
RLock(r)  == rpc[r] = "idle" /\ wHolder = None
             /\ rHolders' = rHolders \cup {r}
             /\ rpc' = [rpc EXCEPT ![r] = "a"] /\ UNCHANGED <<a, b, wHolder, wpc, gotA, gotB, nextV>>
ReadA(r)  == rpc[r] = "a" /\ gotA' = [gotA EXCEPT ![r] = a] /\ UNCHANGED gotB /\ rpc' = [rpc EXCEPT ![r] = "b"] /\ UNCHANGED <<a, b, wHolder, rHolders, wpc, nextV>>
ReadB(r)  == rpc[r] = "b" /\ gotB' = [gotB EXCEPT ![r] = b] /\ UNCHANGED gotA /\ rpc' = [rpc EXCEPT ![r] = "done"] /\ UNCHANGED <<a, b, wHolder, rHolders, wpc, nextV>>
RUnlock(r) == rpc[r] = "done" /\ rHolders' = rHolders \ {r} /\ rpc' = [rpc EXCEPT ![r] = "idle"] /\ UNCHANGED <<a, b, wHolder, wpc, gotA, gotB, nextV>>
Next == (\E w \in Writers : WLock(w) \/ WriteA(w) \/ WriteB(w) \/ WUnlock(w))
        \/ (\E r \in Readers : RLock(r) \/ ReadA(r) \/ ReadB(r) \/ RUnlock(r))

NoTornRead == \A r \in Readers : rpc[r] = "done" => IsVersion(<<gotA[r], gotB[r]>>)

TypeOK == /\ a \in Int /\ b \in Int /\ nextV \in Int
          /\ wHolder \in Writers \cup {None} /\ rHolders \in SUBSET Readers
          /\ wpc \in [Writers -> {"idle", "a", "b", "u"}] /\ rpc \in [Readers -> {"idle", "a", "b", "done"}]
          /\ gotA \in [Readers -> Int] /\ gotB \in [Readers -> Int]
          /\ nextV >= 1
\* the inductive invariant
IndInv ==
  /\ TypeOK
  \* latch discipline: the holder is the one writer inside its critical section; readers inside theirs hold the latch
  /\ \A w \in Writers : (wpc[w] # "idle") <=> (wHolder = w)
  /\ \A r \in Readers : (rpc[r] # "idle") <=> (r \in rHolders)
  /\ wHolder # None => rHolders = {}
  \* the row: a committed version outside the critical section, half-written inside
  /\ wHolder = None => IsVersion(<<a, b>>)
  /\ \A w \in Writers : wpc[w] = "a" => IsVersion(<<a, b>>)
  /\ \A w \in Writers : wpc[w] = "b" => (a = nextV /\ b >= 0 /\ b < 2 * nextV /\ b % 2 = 0)
  /\ \A w \in Writers : wpc[w] = "u" => (a = nextV - 1 /\ b = 2 * a)
  \* a reader inside its callback holds the latch, so the row does not move under it
  /\ \A r \in Readers : rpc[r] = "b" => gotA[r] = a
  /\ \A r \in Readers : rpc[r] = "done" => (gotA[r] = a /\ gotB[r] = b)
IndInit == IndInv
=============================================================================
