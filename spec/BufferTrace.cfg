SPECIFICATION TSpec
CONSTANTS
  BlockSize <- TraceBlock
  Known = @KNOWN@
CONSTRAINT Record
POSTCONDITION Accepted
CHECK_DEADLOCK FALSE
INVARIANTS RoundTrip ChainSound AfterRewrite
