----------------------------- MODULE GenBuffer -----------------------------
(***************************************************************************)
(* Generator (G) for C05: TLC enumerates operation sequences over           *)
(* kinds x value width classes x offset moves; each sequence is printed as  *)
(* JSON and replayed into the real commit.Buffer / Reader / Commit / Log by *)
(* the harness (family buf).  A move is relative to the previous offset.    *)
(***************************************************************************)
EXTENDS Sequences, TLC, Json, Integers
CONSTANTS MaxLen, Kinds, Widths, Moves
VARIABLE sq
\* kinds: del ins put mrg t f ; widths: w2 w4 w8 s0 s1 s127 s128 s255 s256 s65535
\* moves: same next small m128 m16384 jump back home
Valued(k) == k \in {"put", "mrg"}
Steps == {[k |-> k, w |-> w, m |-> m] : k \in Kinds, w \in Widths, m \in Moves}
Init == sq = <<>>
Next == Len(sq) < MaxLen /\ \E s \in {s \in Steps : Valued(s.k) \/ s.w = "w2"} : sq' = Append(sq, s)
Emit == sq = <<>> \/ PrintT(ToJson(sq))
=============================================================================
