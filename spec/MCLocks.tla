---- MODULE MCLocks ----
EXTENDS Locks
L(l, m) == [op |-> "lock", l |-> l, m |-> m]
U(l, m) == [op |-> "unlock", l |-> l, m |-> m]
A(v, m) == <<[op |-> "begin", v |-> v, m |-> m], [op |-> "end", v |-> v, m |-> m]>>

\* point reader on block 0: txn_lock.go QueryAt + column_numeric.go load
Reader == <<L("latch0", "r")>> \o A("registry", "r") \o A("colList", "r") \o A("data0", "r") \o <<U("latch0", "r")>>
\* commit on existing block 0: txn.go commit/commitCapacity(no growth)/rangeWrite/commitMarkers/commitUpdates
Writer0 == <<L("c", "w")>> \o A("commitsLen", "r") \o <<U("c", "w")>>
        \o <<L("latch0", "w"), L("c", "r")>> \o A("commits0", "w") \o <<U("c", "r")>>
        \o <<L("c", "w")>> \o A("fill", "w") \o <<U("c", "w")>>
        \o A("registry", "r")
        \o <<L("col", "r")>> \o A("colList", "r") \o A("data0", "w") \o <<U("col", "r")>>
        \o <<L("idx", "r")>> \o A("idxFill", "w") \o <<U("idx", "r")>>
        \o <<L("c", "w")>> \o A("count", "w") \o <<U("c", "w")>>
        \o <<U("latch0", "w")>>
\* commit that first touches block 1: growth of commits, fill and every column under c.lock + column lock
WriterGrow == <<L("c", "w")>> \o A("commitsLen", "w") \o A("fill", "w") \o A("registry", "r")
           \o <<L("col", "w")>> \o A("colList", "w") \o <<U("col", "w")>> \o <<U("c", "w")>>
           \o <<L("latch1", "w"), L("c", "r")>> \o A("commits1", "w") \o <<U("c", "r")>>
           \o <<L("col", "r")>> \o A("colList", "r") \o A("data1", "w") \o <<U("col", "r")>>
           \o <<U("latch1", "w")>>
\* insert reservation: collection.go next()
Inserter == <<L("c", "w")>> \o A("fill", "w") \o A("count", "w") \o <<U("c", "w")>>
\* snapshot of block 0: snapshot.go chunks() + readChunk
Snap == <<L("c", "w")>> \o A("fill", "r") \o <<U("c", "w")>> \o A("registry", "r")
     \o <<L("latch0", "r"), L("c", "w")>> \o A("commits0", "r") \o A("fill", "r") \o A("colList", "r") \o A("data0", "r")
     \o <<U("c", "w"), U("latch0", "r")>>
\* CreateIndex: registry update under c.lock, then back-fill with no latch
IndexBuild == <<L("c", "w")>> \o A("registry", "w") \o <<U("c", "w")>>
           \o <<L("c", "w")>> \o A("fill", "r") \o <<U("c", "w")>>
           \o A("colList", "r") \o A("data0", "r")
           \o <<L("idx", "r")>> \o A("idxFill", "w") \o <<U("idx", "r")>>

ProgAll == [t \in {"reader", "writer0", "grow", "ins", "snap", "index"} |->
             CASE t = "reader" -> Reader [] t = "writer0" -> Writer0 [] t = "grow" -> WriterGrow
               [] t = "ins" -> Inserter [] t = "snap" -> Snap [] t = "index" -> IndexBuild]
====
