SPECIFICATION ESpec
CONSTANTS
  Rows = {r1, r2@R3@}
  MaxClock = 6
  MaxExt = 2
  Known = @KNOWN@
PROPERTIES NoEarlyExpiry ExpiredGoes NoTTLStays
CHECK_DEADLOCK FALSE
