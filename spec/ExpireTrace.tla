---------------------------- MODULE ExpireTrace ----------------------------
(***************************************************************************)
(* Validation of timed executions of the real vacuum: every TTL write and   *)
(* every deletion is observed by the in-latch logger with a timestamp taken *)
(* inside Append (milliseconds since the start of the scenario); presence   *)
(* is polled.  A deletion needs a passed deadline; a row whose deadline     *)
(* passed more than Grace ago must be gone; a row without deadline, or with *)
(* one beyond the scenario's end, must still be there.                      *)
(***************************************************************************)
EXTENDS Integers, Sequences, FiniteSets, TLC, Json, IOUtils, TLCExt

CONSTANTS Known
TraceLog == ndJsonDeserialize(IOEnv.TRACE)
VARIABLES l, live, deadline, prev, dev, pend, gone   \* per collection name: sets / functions over offsets
tvars == <<l, live, deadline, prev, dev, pend, gone>>
Ev == TraceLog[l]
Is(e) == l <= Len(TraceLog) /\ Ev.e = e /\ l' = l + 1
Colls == {"P", "R", "S"}
None == [c \in Colls |-> <<>>]

TInit == l = 2 /\ live = [c \in Colls |-> {}] /\ deadline = None /\ prev = None /\ dev = {} /\ pend = None /\ gone = None
TReset == Is("reset") /\ live' = [c \in Colls |-> {}] /\ deadline' = None /\ prev' = None /\ dev' = {} /\ pend' = None /\ gone' = None

Get(f, o) == IF o \in DOMAIN f THEN f[o] ELSE 0
Put(f, o, v) == [x \in DOMAIN f \cup {o} |-> IF x = o THEN v ELSE f[x]]

\* a row was inserted (committed)
TIns == Is("xins") /\ live' = [live EXCEPT ![Ev.c] = @ \cup {Ev.o}]
        /\ deadline' = [deadline EXCEPT ![Ev.c] = Put(@, Ev.o, 0)] /\ prev' = [prev EXCEPT ![Ev.c] = Put(@, Ev.o, 0)] /\ UNCHANGED <<dev, pend>>
        \* (what the previous occupant of the offset had as its deadline, and when the offset was taken again)
        /\ gone' = [gone EXCEPT ![Ev.c] = Put(@, Ev.o, <<Get(deadline[Ev.c], Ev.o), Ev.at>>)]
\* the deadline of a row was written (SetTTL: put; Extend: merge, the logger sees the absolute result)
TTtl == Is("xttl") /\ deadline' = [deadline EXCEPT ![Ev.c] = Put(@, Ev.o, Ev.d)]
        /\ prev' = [prev EXCEPT ![Ev.c] = Put(@, Ev.o, Get(deadline[Ev.c], Ev.o))] /\ UNCHANGED <<live, dev, gone>>
        \* the first deadline committed after a call that set a time-to-live is (time of that call + the time-to-live)
        /\ LET p == IF Ev.o \in DOMAIN pend[Ev.c] THEN pend[Ev.c][Ev.o] ELSE <<0, 0>> IN
             /\ p # <<0, 0>> => (p[1] <= Ev.d /\ Ev.d <= p[2])
             /\ pend' = IF p # <<0, 0>> THEN [pend EXCEPT ![Ev.c] = Put(@, Ev.o, <<0, 0>>)] ELSE pend
\* a call has set the time-to-live of a row (buffered in its transaction): between Ev.lo and Ev.hi, by the caller's clock
TSet == Is("xset") /\ pend' = [pend EXCEPT ![Ev.c] = Put(@, Ev.o, <<Ev.lo, Ev.hi>>)] /\ UNCHANGED <<live, deadline, prev, dev, gone>>
\* Extend moves the deadline by exactly the requested amount
TExt == Is("xext") /\ UNCHANGED <<live, deadline, prev, dev, pend, gone>>
        /\ Get(deadline[Ev.c], Ev.o) = Get(prev[Ev.c], Ev.o) + Ev.by
\* the vacuum deleted a row at time Ev.at: its deadline had passed (as built: the deadline it had before an
\* extension committed between the vacuum's scan and its commit)
TDel ==
  /\ Is("xdel") /\ Ev.o \in live[Ev.c]
  /\ LET d == Get(deadline[Ev.c], Ev.o)  p == Get(prev[Ev.c], Ev.o) IN
     \E mode \in {"strict"} \cup (IF "D-vacuum-no-recheck" \in Known THEN {"asbuilt"} ELSE {}) :
        /\ IF mode = "strict" THEN d # 0 /\ d <= Ev.at
           ELSE /\ ~(d # 0 /\ d <= Ev.at)
                \* as built the cleanup deletes, unchecked, the offsets it picked when it scanned: the row whose extension
                \* was committed meanwhile - or the row that has taken the offset meanwhile (its previous occupant was due,
                \* was removed by someone else, and the offset was handed out again less than a second ago)
                /\ \/ p # 0 /\ p <= Ev.at
                   \/ LET g == IF Ev.o \in DOMAIN gone[Ev.c] THEN gone[Ev.c][Ev.o] ELSE <<0, 0>> IN
                        g[1] # 0 /\ g[1] <= Ev.at /\ Ev.at - g[2] <= 1000
        /\ dev' = IF mode = "asbuilt" THEN dev \cup {"D-vacuum-no-recheck"} ELSE dev
  /\ live' = [live EXCEPT ![Ev.c] = @ \ {Ev.o}] /\ UNCHANGED <<deadline, prev, pend, gone>>
\* presence poll at time Ev.at (order against the logger's events is not exact: the checks leave Ev.grace slack)
TPoll ==
  /\ Is("xpoll") /\ UNCHANGED <<live, deadline, prev, dev, pend, gone>>
  /\ LET seen == {Ev.rows[i] : i \in DOMAIN Ev.rows} IN
     /\ \A o \in DOMAIN deadline[Ev.c] :
          LET d == deadline[Ev.c][o] IN
          /\ (d # 0 /\ d + Ev.grace < Ev.at) => o \notin seen                 \* expired long ago: gone
          /\ (o \in live[Ev.c] /\ (d = 0 \/ d > Ev.at + Ev.grace)) => o \in seen  \* not due: still there
\* the deadline as read from a replica or a restored collection equals the primary's
TCopy == Is("xcopy") /\ UNCHANGED <<live, deadline, prev, dev, pend, gone>> /\ Ev.d = Get(deadline[Ev.src], Ev.o)
\* a copy (replica, restored collection) starts with the primary's rows and deadlines
TClone == Is("xclone") /\ live' = [live EXCEPT ![Ev.c] = live[Ev.src]] /\ deadline' = [deadline EXCEPT ![Ev.c] = deadline[Ev.src]]
          /\ prev' = [prev EXCEPT ![Ev.c] = prev[Ev.src]] /\ UNCHANGED <<dev, pend, gone>>

\* a replica receives the primary's deletions through the stream AND runs its own vacuum: a deletion of a row
\* that is already gone changes nothing
TDelGone == Is("xdel") /\ Ev.c # "P" /\ Ev.o \notin live[Ev.c] /\ UNCHANGED <<live, deadline, prev, dev, pend, gone>>

TNext == TReset \/ TDelGone \/ TIns \/ TSet \/ TTtl \/ TExt \/ TDel \/ TPoll \/ TCopy \/ TClone
TSpec == TInit /\ [][TNext]_tvars
Record == TLCSet(1, <<IF l > TLCGet(1)[1] THEN l ELSE TLCGet(1)[1], TLCGet(1)[2] \cup dev>>)
ASSUME TLCSet(1, <<0, {}>>)
Accepted == /\ PrintT(<<"DEV", TLCGet(1)[2]>>)
            /\ PrintT(<<"MATCHED", TLCGet(1)[1] - 1, Len(TraceLog)>>)
            /\ TLCGet(1)[1] - 1 = Len(TraceLog)
Diag == <<"event", Ev, "deadline", deadline, "prev", prev, "live", live, "pend", pend, "gone", gone>>
=============================================================================
