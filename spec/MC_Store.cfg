SPECIFICATION MCSpec
CONSTANTS
  Colls = {"P"}
  Actors = {"w1"}
  Writers = {"w1"}
  Offsets = {0, 1, 2, 3}
  BlockSize = 2
  Known = @KNOWN@
  Schema <- SchemaIntStr
  IdxDefs <- IdxIntStr
  SortDefs <- SortS
  TrigDefs <- TrigAS
  MaxOps = @MAXOPS@
  LiveChoices <- AllLayouts
  HasMode = "@HASMODE@"
  Replica = FALSE
  Transport = "log"
  AllowFail = FALSE
  AllowRollback = TRUE
  AllowDelete = TRUE
  AllowInsert = TRUE
  LateInitSel = FALSE
INVARIANTS ReadBack IndexCoherent SortCoherent KeyCoherent NoCollision OccupiedIsLive NoStaleValues StreamIds
