SPECIFICATION MCSpec
CONSTANTS
  Colls = {"P"}
  Actors = {"w1"}
  Writers = {"w1"}
  Offsets = {0, 1, 2, 3}
  BlockSize = 2
  Known = @KNOWN@
  History = FALSE
  Guard = @GUARD@
  Schema <- SchemaIntStr
  IdxDefs <- IdxIntStr
  SortDefs <- SortS
  TrigDefs <- TrigAS
  MaxOps = @MAXOPS@
  LiveChoices <- AllLayouts
  HasMode = "@HASMODE@"
  Replica = FALSE
  Transport = "log"
  AllowFail = @FAIL@
  AllowRollback = @ROLLBACK@
  AllowDelete = TRUE
  AllowInsert = TRUE
  Keyed = FALSE
  LateInitSel = FALSE
  Snap = "none"
  SnapFails = FALSE
  Snap2 = "none"
  RstFile = "f"
  Rst = "none"
  Rep = "rep"
  Late <- LateNone
  ReplayAtEnd = TRUE
INVARIANTS FillAccounting ReadBack IndexCoherent SortCoherent KeyCoherent NoCollision OccupiedIsLive NoStaleValues StreamIds
PROPERTIES RollbackNoTrace
