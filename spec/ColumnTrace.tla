---------------------------- MODULE ColumnTrace ----------------------------
(***************************************************************************)
(* Trace validation: every line of the ndjson trace written by the Go      *)
(* harness (running the real code) must be explained by an action of       *)
(* Column.tla; logged values are bound to the primed state.  Many traces   *)
(* are concatenated; a "reset" line returns to the initial state.          *)
(***************************************************************************)
EXTENDS Column, Json, IOUtils, TLCExt

TraceLog == ndJsonDeserialize(IOEnv.TRACE)
Hdr == TraceLog[1]
TraceColls   == SeqToSet(Hdr.colls)
TraceActors  == SeqToSet(Hdr.actors)
TraceOffsets == SeqToSet(Hdr.offsets)
TraceBlock   == Hdr.blocksize

VARIABLE l
tvars == <<vars, l>>
Ev == TraceLog[l]
Is(e) == l <= Len(TraceLog) /\ Ev.e = e /\ l' = l + 1

TInit == Init /\ l = 2

Pairs(s) == {<<s[i][1], s[i][2]>> : i \in DOMAIN s}
EvOps(f, n) == IF n \in DOMAIN f THEN f[n] ELSE <<>>

TReset == /\ Is("reset")
          /\ st' = [c \in Colls |-> EmptyStore] /\ txn' = [t \in Actors |-> IdleTxn]
          /\ used' = {} /\ files' = EmptyFn /\ dev' = {}

TCreateCol  == Is("createcol")  /\ CreateColumn(Ev.c, Ev.n, [k |-> Ev.k, m |-> Ev.m])
TDropCol    == Is("dropcol")    /\ DropColumn(Ev.c, Ev.n)
TCreateIdx  == Is("createidx")  /\ CreateIndex(Ev.c, Ev.n, Ev.col, Ev.p)
TDropIdx    == Is("dropidx")    /\ DropIndex(Ev.c, Ev.n)
TCreateSort == Is("createsort") /\ CreateSort(Ev.c, Ev.n, Ev.col)
TCreateTrig == Is("createtrig") /\ CreateTrigger(Ev.c, Ev.n, Ev.col)
TDropTrig   == Is("droptrig")   /\ DropTrigger(Ev.c, Ev.n)
TDrop       == Is("drop")       /\ Drop(Ev.c)
TRes        == Is("res")        /\ ResProbe(Ev.fds, Ev.tmp)
TLogEnd     == Is("logend")     /\ UNCHANGED vars
TTransport  == Is("transport")  /\ SetTransport(Ev.c, Ev.tp)

TBulkIns    == Is("bulkins")    /\ BulkInsert(Ev.c, Ev.lo, Ev.hi, Ev.ids)
TBulkDel    == Is("bulkdel")    /\ BulkDelete(Ev.c, Ev.lo, Ev.hi, Ev.ids)
TBulkReplay == Is("bulkreplay") /\ Ev.i \in DOMAIN st[Ev.src].strm /\ "bulk" \in DOMAIN st[Ev.src].strm[Ev.i]
                                /\ BulkReplay(Ev.c, st[Ev.src].strm[Ev.i], Ev.id)

TBegin    == Is("begin")    /\ Begin(Ev.t, Ev.c)
TSel      == Is("sel")      /\ InitSel(Ev.t, SeqToSet(Ev.rows)) /\ txn'[Ev.t].self = Pairs(Ev.filler)
TReserve  == Is("reserve")  /\ Reserve(Ev.t, Ev.o)
TInsFail  == Is("insfail")  /\ InsFail(Ev.t, Ev.o)
TWrite    == Is("w")        /\ Write(Ev.t, Ev.n, Ev.k, Ev.o, Ev.v)
TDelete   == Is("del")      /\ Delete(Ev.t, Ev.o) /\ txn[Ev.t].setup /\ Ev.o \in txn[Ev.t].sel
TDeleteAll == Is("delall")  /\ DeleteAll(Ev.t)
\* DeleteAt refuses exactly the offsets that are not in the transaction's selection
TDelMiss  == Is("delmiss")  /\ UNCHANGED vars /\ txn[Ev.t].pc = "body" /\ txn[Ev.t].setup /\ Ev.o \notin txn[Ev.t].sel
\* ---- filters, iteration, aggregates
TFilter  == Is("flt") /\ (IF Ev.f \in {"with", "without", "union", "withunion"}
                            THEN FilterNames(Ev.t, Ev.f, Ev.names, Ev.first)
                            ELSE FilterValue(Ev.t, Ev.f, Ev.col, Ev.p))
TCount   == Is("count") /\ UNCHANGED vars /\ Selected(Ev.t) /\ Ev.n = SelCount(Ev.t)
\* Range visits each selected row exactly once in ascending offset order; readers are positioned on it
TRange ==
  /\ Is("range") /\ UNCHANGED vars /\ Selected(Ev.t)
  /\ LET S == Coll(Ev.t)  seq == Ev.rows IN
     /\ {seq[i].o : i \in DOMAIN seq} = txn[Ev.t].sel
     /\ Len(seq) = Cardinality(txn[Ev.t].sel)
     /\ \A i \in 1..(Len(seq) - 1) : seq[i].o < seq[i + 1].o
     /\ Pairs(Ev.filler) = txn[Ev.t].self
     /\ \A i \in DOMAIN seq : (seq[i].o \in S.live \cup txn[Ev.t].reserved) =>
           \A n \in DOMAIN seq[i].vals :
              /\ seq[i].vals[n][1] = (seq[i].o \in S.has[n])
              /\ seq[i].vals[n][1] => seq[i].vals[n][2] = ValueAt(S, n, seq[i].o)[2]
\* Sum / Avg / Min / Max over the selected rows that hold a value; Avg is logged in thousandths
TAgg ==
  /\ Is("agg") /\ UNCHANGED <<st, txn, used, files>> /\ Selected(Ev.t)
  /\ LET S == Coll(Ev.t)
         strictRows == AggRows(Ev.t, Ev.col)
     IN \E mode \in Modes("D-aggregates-ignore-presence") :
        LET rows == IF mode = "strict" THEN strictRows ELSE txn[Ev.t].sel
            n == Cardinality(rows) + (IF mode = "strict" THEN 0 ELSE FillerSize(txn[Ev.t].self))
            sum == SumOver(S, Ev.col, rows)
            vals == {S.data[Ev.col][o] : o \in rows} \cup (IF mode = "asbuilt" /\ txn[Ev.t].self # {} THEN {0} ELSE {})
        IN /\ mode = "asbuilt" => (rows # strictRows \/ txn[Ev.t].self # {})
           /\ dev' = IF mode = "asbuilt" THEN dev \cup {"D-aggregates-ignore-presence"} ELSE dev
           /\ CASE Ev.fn = "sum" -> Ev.v = sum
                [] Ev.fn = "avg" -> IF n = 0 THEN ~Ev.ok
                                    ELSE Ev.ok /\ LET d == Ev.v * n - 1000 * sum IN 2 * (IF d < 0 THEN -d ELSE d) <= n
                [] Ev.fn = "min" -> IF vals = {} THEN ~Ev.ok ELSE Ev.ok /\ Ev.v = MinOf(vals)
                [] Ev.fn = "max" -> IF vals = {} THEN ~Ev.ok ELSE Ev.ok /\ Ev.v = MaxOf(vals)

TKDelete  == Is("kdel")     /\ Delete(Ev.t, Ev.o)      \* DeleteKey does not consult the selection
TKeyCheck == Is("kchk")     /\ KeyCheck(Ev.t, Ev.fn, Ev.k, Ev.found, Ev.o)
TKeyEnd   == Is("kend")     /\ KeyEnd(Ev.t, Ev.err)
TRollback == Is("rollback") /\ Rollback(Ev.t)
TCommitStart == Is("commitstart") /\ CommitStart(Ev.t)

\* the in-latch logger event: id, block, the rewritten operations of the block per column and row,
\* the trigger calls made while the block was applied, the runs of value-less rows inserted (restore)
ApplyBinding(b) ==
  LET bufs == txn'[Ev.t].bufs
      frd  == txn'[Ev.t].fired
  IN /\ \A n \in DOMAIN bufs \cup DOMAIN Ev.ops :
           PerRow(OpsOfBlock(BufOps(bufs, n), b)) = PerRow(EvOps(Ev.ops, n))
     /\ \A n \in DOMAIN frd \cup DOMAIN Ev.fired :
           PerRow(EvOps(frd, n)) = PerRow(EvOps(Ev.fired, n))
     /\ Pairs(Ev.runs) = {x \in txn'[Ev.t].runs : BlockOf(x[1]) = b}
TApply ==
  /\ Is("apply")
  /\ Ev.chid = Ev.id          \* the commit a consumer receives carries the id the store drew (C15)
  /\ \E mode \in {"strict", "asbuilt"} :
       /\ IF txn[Ev.t].pc = "restoring"
            THEN RestoreApply(Ev.t, Ev.b, Ev.id, mode)
            ELSE txn[Ev.t].c = Ev.c /\ Apply(Ev.t, Ev.b, Ev.id, mode)
       /\ txn'[Ev.t].c = Ev.c
       /\ ApplyBinding(Ev.b)
\* the latch of a block is released; a restore also latches blocks whose image is empty (nothing is applied or emitted)
TAfter == Is("after") /\ (IF txn[Ev.t].pc = "restoring" THEN UNCHANGED vars ELSE Unlatch(Ev.t))

\* snapshot protocol: one event per hook point reached (the step before it has completed)
TSnap ==
  /\ Is("snap")
  /\ CASE Ev.at = "opened"  -> SnapOpen(Ev.t, Ev.c)
       [] Ev.at = "block"   -> IF Ev.b = 0 THEN SnapHeader(Ev.t) /\ txn'[Ev.t].sn.nb > 0
                               ELSE SnapBlock(Ev.t) /\ Len(txn'[Ev.t].sn.blocks) = Ev.b
       [] Ev.at = "closing" -> IF txn[Ev.t].pc = "snap.open" THEN SnapHeader(Ev.t) /\ txn'[Ev.t].sn.nb = 0
                               ELSE SnapBlock(Ev.t) /\ Len(txn'[Ev.t].sn.blocks) = txn[Ev.t].sn.nb
       \* real parallelism (par/c08): a block is logged from inside its read latch, by a probe column of the harness whose
       \* Snapshot method the library calls there; "allread": every block written, the recorder still installed (the harness
       \* lets no transaction run between this point and "copying", so that the detaching has an exact place in the trace)
       [] Ev.at = "read"    -> SnapBlock(Ev.t) /\ Len(txn'[Ev.t].sn.blocks) = Ev.b + 1
       [] Ev.at = "allread" -> SnapAllRead(Ev.t)
       [] Ev.at = "copying" -> IF txn[Ev.t].pc = "snap.copy" THEN UNCHANGED vars ELSE SnapClose(Ev.t)
       \* C14: a destination that failed at any point makes Snapshot return an error
       [] Ev.at = "ret"     -> /\ Ev.dstfailed => Ev.err
                               /\ IF Ev.err THEN (SnapFail(Ev.t) \/ SnapBusy(Ev.t, Ev.c)) ELSE SnapCopy(Ev.t, Ev.file)
\* A file written beside really parallel writers (par/c08, file "pf1"): commits to DIFFERENT blocks reach the recorder in an
\* order nothing observes (recorder append and logger call are separate steps under different latches), and Restore replays
\* the file's order. Such commits commute; per block the order is the latch order, which the log has. An unlogged step moves
\* the first recorded commit of the block the next replayed commit belongs to in front of the commits of other blocks.
ParFile == "pf1"
TRestoreReorder ==
  /\ l <= Len(TraceLog) /\ l' = l /\ Ev.e = "apply"
  /\ txn[Ev.t].pc = "restoring" /\ txn[Ev.t].rs.file = ParFile
  /\ LET F == files[ParFile]
         its == FileItems(F)
         i == NextEffective(F, txn[Ev.t].rs.pos)
         cand == {j \in (i + 1)..Len(its) : Effective(F, its[j]) /\ its[j].b = Ev.b}
     IN /\ i # 0 /\ its[i].kind = "commit" /\ its[i].b # Ev.b /\ cand # {}
        /\ LET a == i - F.nb
               z == MinOf(cand) - F.nb
               lg == F.log
           IN files' = [files EXCEPT ![ParFile].log =
                          SubSeq(lg, 1, a - 1) \o <<lg[z]>> \o SubSeq(lg, a, z - 1) \o SubSeq(lg, z + 1, Len(lg))]
  /\ UNCHANGED <<st, txn, used, dev>>
TRestore ==
  /\ Is("restore")
  /\ IF Ev.at = "begin" THEN RestoreBegin(Ev.t, Ev.c, Ev.file, Ev.trunc) ELSE RestoreEnd(Ev.t, Ev.err)

TReplay == /\ Is("replay") /\ Ev.i \in DOMAIN st[Ev.src].strm /\ "bufs" \in DOMAIN st[Ev.src].strm[Ev.i]
           /\ ReplayBegin(Ev.t, Ev.c, st[Ev.src].strm[Ev.i], Ev.i)

\* a read inside a transaction returns committed values (rows that are live or reserved by the reader)
TRead ==
  /\ Is("read") /\ UNCHANGED vars
  /\ LET S == Coll(Ev.t) IN
     (Ev.o \in S.live \cup txn[Ev.t].reserved) =>
        \A n \in DOMAIN Ev.vals :
           /\ n \in DOMAIN S.reg
           /\ Ev.vals[n][1] = (Ev.o \in S.has[n])
           /\ Ev.vals[n][1] => Ev.vals[n][2] = ValueAt(S, n, Ev.o)[2]

\* full projection of a collection through the public API
DumpRows(S, mode) == IF mode = "strict" THEN S.live ELSE S.fill
TDump ==
  /\ Is("dump") /\ UNCHANGED <<st, txn, used, files>>
  /\ LET S == st[Ev.c]
         rows == SeqToSet(Ev.rows)
     IN \E mode \in Modes("D-inflight-insert-visible") :
        /\ mode = "strict" => (Quiescent(Ev.c) => S.fill = S.live)
        /\ mode = "asbuilt" => (~Quiescent(Ev.c) /\ S.fill # S.live)
        /\ dev' = IF mode = "asbuilt" THEN dev \cup {"D-inflight-insert-visible"} ELSE dev
        /\ {r.o : r \in rows} = DumpRows(S, mode)
        /\ Ev.count = Cardinality(DumpRows(S, mode)) + FillerSize(S.filler)
        /\ Pairs(Ev.filler) = S.filler
        /\ \A r \in rows :
             /\ DOMAIN r.vals = DOMAIN S.reg
             /\ \A n \in DOMAIN S.reg :
                  /\ r.vals[n][1] = (r.o \in S.has[n])
                  /\ r.vals[n][1] => r.vals[n][2] = ValueAt(S, n, r.o)[2]
             /\ DOMAIN r.ix = DOMAIN S.ix
             /\ \A n \in DOMAIN S.ix : r.ix[n] = (r.o \in S.ix[n].set)
        /\ \A k \in DOMAIN Ev.keys :
             IF \E p \in S.seek : p[1] = k
               THEN Ev.keys[k][1] /\ <<k, Ev.keys[k][2]>> \in S.seek
               ELSE ~Ev.keys[k][1]
        /\ DOMAIN Ev.sorted = DOMAIN S.sx
        /\ \A n \in DOMAIN S.sx :
             \* Ascend visits exactly the rows that have an entry, ordered by the entries' values; the value read
             \* at each stop is the column's current value (entry value = column value is SortCoherent)
             LET seq == Ev.sorted[n]
                 items == {it \in S.sx[n].items : it[2] \in DumpRows(S, mode)}
                 keyOf(o) == (CHOOSE it \in items : it[2] = o)[1]
             IN
             /\ Len(seq) = Cardinality(items)
             /\ {seq[i][1] : i \in DOMAIN seq} = {it[2] : it \in items}
             /\ \A i \in 1..(Len(seq) - 1) : SeqLeq(keyOf(seq[i][1]), keyOf(seq[i + 1][1]))
             /\ S.sx[n].col # Detached => \A i \in DOMAIN seq : seq[i][2] = ValueAt(S, S.sx[n].col, seq[i][1])[2]
        \* the same over a narrow selection (the rows whose value in column Ev.narrow.col equals Ev.narrow.k): exactly the
        \* selected rows that have an entry, in order
        /\ "narrow" \in DOMAIN Ev =>
             LET nc == Ev.narrow.col IN
             /\ nc \in DOMAIN S.reg
             /\ \A n \in DOMAIN Ev.narrow.seq :
                  /\ n \in DOMAIN S.sx
                  /\ LET seq == Ev.narrow.seq[n]
                         items == {it \in S.sx[n].items : /\ it[2] \in DumpRows(S, mode) /\ it[2] \in S.has[nc]
                                                          /\ S.data[nc][it[2]] = Ev.narrow.k}
                         keyOf(o) == (CHOOSE it \in items : it[2] = o)[1]
                     IN
                     /\ Len(seq) = Cardinality(items)
                     /\ {seq[i][1] : i \in DOMAIN seq} = {it[2] : it \in items}
                     /\ \A i \in 1..(Len(seq) - 1) : SeqLeq(keyOf(seq[i][1]), keyOf(seq[i + 1][1]))
                     /\ S.sx[n].col # Detached => \A i \in DOMAIN seq : seq[i][2] = ValueAt(S, S.sx[n].col, seq[i][1])[2]

\* ---- diagnostics (development aid, used by bin/explain): what differs between the event and the model state
DumpDiag ==
  LET S == st[Ev.c]
      rows == SeqToSet(Ev.rows)
  IN [ rows_only_in_event |-> {r.o : r \in rows} \ S.fill, rows_only_in_model |-> S.fill \ {r.o : r \in rows},
       live |-> S.live, count |-> <<Ev.count, CountOf(S)>>, filler |-> <<Pairs(Ev.filler), S.filler>>,
       cols |-> <<UNION {DOMAIN r.vals : r \in rows}, DOMAIN S.reg>>,
       vals |-> UNION {{<<r.o, n, r.vals[n], <<r.o \in S.has[n]>>>> : n \in {n \in DOMAIN S.reg \cap DOMAIN r.vals :
                            \/ r.vals[n][1] # (r.o \in S.has[n])
                            \/ (r.vals[n][1] /\ r.vals[n][2] # ValueAt(S, n, r.o)[2])}} : r \in {r \in rows : r.o \in S.fill}},
       expect |-> [n \in DOMAIN S.reg |-> [o \in S.fill |-> ValueAt(S, n, o)]],
       ix |-> UNION {{<<r.o, n, r.ix[n]>> : n \in {n \in DOMAIN S.ix \cap DOMAIN r.ix : r.ix[n] # (r.o \in S.ix[n].set)}} : r \in rows},
       keys |-> <<Ev.keys, S.seek>>, sorted |-> <<Ev.sorted, [n \in DOMAIN S.sx |-> S.sx[n].items]>>, dev |-> dev ]
ApplyDiag ==
  LET t == Ev.t
      S == st[Ev.c]
      T == IF txn[t].pc = "restoring" /\ RestoreCanLoad(t) THEN RestoreLoaded(t) ELSE txn[t]
      strict == ApplyBlockR(S, T.bufs, Ev.b, Ev.id, {}, T.runs)
      full == ApplyBlockR(S, T.bufs, Ev.b, Ev.id, FlagsOf(ApplyKnown), T.runs)
  IN [ pc |-> txn[t].pc, dirty |-> txn[t].dirty, lastId |-> S.lastId, usedHas |-> Ev.id \in used,
       strict |-> [n \in DOMAIN strict.bufs |-> PerRow(OpsOfBlock(strict.bufs[n], Ev.b))],
       asbuilt |-> [n \in DOMAIN full.bufs |-> PerRow(OpsOfBlock(full.bufs[n], Ev.b))],
       logged |-> [n \in DOMAIN Ev.ops |-> PerRow(Ev.ops[n])],
       fired_strict |-> strict.fired, fired_asbuilt |-> full.fired, fired_logged |-> Ev.fired, live |-> S.live ]
ReadBackDiag ==
  UNION {UNION {{<<c, n, o, st[c].gt[n][o], ValueAt(st[c], n, o)>> : o \in {o \in st[c].live :
                     LET g == st[c].gt[n][o]  v == ValueAt(st[c], n, o) IN ~(g[1] = v[1] /\ (g[1] => g[2] = v[2]))}}
                : n \in DOMAIN st[c].reg} : c \in Colls}
InvDiag == ReadBack \/ PrintT(<<"READBACK", ReadBackDiag, dev>>)
Diag == IF Ev.e = "dump" THEN DumpDiag ELSE IF Ev.e = "apply" THEN ApplyDiag ELSE <<"event", Ev, "txn", txn>>

TNext == \/ TReset \/ TDrop \/ TRes \/ TLogEnd \/ TCreateCol \/ TDropCol \/ TCreateIdx \/ TDropIdx \/ TCreateSort \/ TCreateTrig \/ TDropTrig \/ TTransport
         \/ TBulkIns \/ TBulkDel \/ TBulkReplay
         \/ TBegin \/ TSel \/ TReserve \/ TInsFail \/ TWrite \/ TDelete \/ TDeleteAll \/ TFilter \/ TCount \/ TRange \/ TAgg \/ TDelMiss \/ TKDelete \/ TKeyCheck \/ TKeyEnd \/ TRollback \/ TCommitStart
         \/ TApply \/ TAfter \/ TSnap \/ TRestoreReorder \/ TRestore \/ TReplay \/ TRead \/ TDump
TSpec == TInit /\ [][TNext]_tvars

\* acceptance: high-water mark of l and union of deviations, kept in a TLC register (needs -workers 1)
Record == TLCSet(1, <<IF l > TLCGet(1)[1] THEN l ELSE TLCGet(1)[1], TLCGet(1)[2] \cup dev>>)
ASSUME TLCSet(1, <<0, {}>>)
Accepted == /\ PrintT(<<"DEV", TLCGet(1)[2]>>)
            /\ PrintT(<<"MATCHED", TLCGet(1)[1] - 1, Len(TraceLog)>>)
            /\ TLCGet(1)[1] - 1 = Len(TraceLog)
=============================================================================
