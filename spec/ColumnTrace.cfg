SPECIFICATION TSpec
CONSTANTS
  Colls <- TraceColls
  Actors <- TraceActors
  Offsets <- TraceOffsets
  BlockSize <- TraceBlock
  Known = @KNOWN@
  History = FALSE
  Guard = TRUE
CONSTRAINT Record
POSTCONDITION Accepted
CHECK_DEADLOCK FALSE
INVARIANTS ReadBack IndexCoherent SortCoherent KeyCoherent NoCollision OccupiedIsLive NoStaleValues StreamIds
