// Command vh runs harness families against the real code and writes ndjson traces.
package main

import (
	"flag"
	"fmt"
	"os"
	"path/filepath"

	"verif/harness/h"
)

func main() {
	family := flag.String("family", "seq", "harness family")
	profile := flag.String("profile", "c01", "profile within the family")
	seed := flag.Int64("seed", 1, "random seed")
	n := flag.Int("n", 10, "number of scenarios")
	out := flag.String("out", "", "output directory")
	shards := flag.Int("shards", 1, "number of parallel harness processes")
	shard := flag.Int("shard", 0, "index of this process among the shards")
	one := flag.Int64("one", 0, "run exactly the scenario with this scenario seed (replay)")
	flag.Parse()
	if *out == "" {
		fmt.Fprintln(os.Stderr, "vh: -out required")
		os.Exit(2)
	}
	os.MkdirAll(*out, 0o755)
	// a private temp dir: the library's recorder files (column_*.log) are counted by the resource probes
	if dir, err := os.MkdirTemp("", "vh-tmp-"); err == nil {
		os.Setenv("TMPDIR", dir)
		defer os.RemoveAll(dir)
	}
	switch *family {
	case "seq":
		for i := 0; i < *n; i++ {
			s := *seed*1000003 + int64(i)
			if *one == 0 && i%*shards != *shard {
				continue
			}
			if *one != 0 {
				s = *one
				*n = 1
			}
			p := h.SeqProfileFor(*profile, s)
			evs := h.RunSeq(s, p)
			name := fmt.Sprintf("%s-%s-%d.ndjson", *family, p.Name, s)
			if err := h.WriteTrace(filepath.Join(*out, name), evs); err != nil {
				fmt.Fprintln(os.Stderr, "vh:", err)
				os.Exit(2)
			}
		}
	case "fault":
		for i := 0; i < *n; i++ {
			s := *seed*1000003 + int64(i)
			if *one == 0 && i%*shards != *shard {
				continue
			}
			if *one != 0 {
				s = *one
				*n = 1
			}
			p := h.FaultProfileFor(*profile, s)
			name := fmt.Sprintf("%s-%s-%d.ndjson", *family, p.Name, s)
			if err := h.WriteTrace(filepath.Join(*out, name), h.RunFault(s, p)); err != nil {
				fmt.Fprintln(os.Stderr, "vh:", err)
				os.Exit(2)
			}
		}
	case "trunc":
		for i := 0; i < *n; i++ {
			s := *seed*1000003 + int64(i)
			if *one == 0 && i%*shards != *shard {
				continue
			}
			if *one != 0 {
				s = *one
				*n = 1
			}
			p := h.TruncProfileFor(*profile, s)
			name := fmt.Sprintf("%s-%s-%d.ndjson", *family, p.Name, s)
			if err := h.WriteTrace(filepath.Join(*out, name), h.RunTrunc(s, p)); err != nil {
				fmt.Fprintln(os.Stderr, "vh:", err)
				os.Exit(2)
			}
		}
	case "conc":
		for i := 0; i < *n; i++ {
			s := *seed*1000003 + int64(i)
			if *one == 0 && i%*shards != *shard {
				continue
			}
			if *one != 0 {
				s = *one
				*n = 1
			}
			p := h.ConcProfileFor(*profile, s)
			for k, evs := range h.RunConc(s, p) {
				name := fmt.Sprintf("%s-%s-%d-%d.ndjson", *family, p.Name, s, k)
				if err := h.WriteTrace(filepath.Join(*out, name), evs); err != nil {
					fmt.Fprintln(os.Stderr, "vh:", err)
					os.Exit(2)
				}
			}
		}
	default:
		fmt.Fprintln(os.Stderr, "vh: unknown family", *family)
		os.Exit(2)
	}
}
