package h

import (
	"fmt"
	"math/rand"
	"runtime/debug"
)

// ---- programs --------------------------------------------------------------------------------

// COp is one step of a transaction body.
type COp struct {
	K    string // sel | ins | at | del | ink | ups | dlk | qk
	Key  string
	Row  int // index into the rows that were live when the actors started (at, del)
	Ws   []W
	Fail bool
}

// CTxn is one transaction of an actor.
type CTxn struct {
	Ops      []COp
	Rollback bool
}

// ConcProfile parameterises the concurrent scenario generator.
type ConcProfile struct {
	Name      string
	Cols      []ColDesc
	Idx       []IdxDesc
	Trigs     [][2]string
	Capacity  int
	Transport string
	Replica   bool
	Prologue  string
	InitRows  int // tracked rows inserted before the actors start
	Writers   int
	Txns      int // transactions per writer
	MaxBody   int
	PInsert   float64
	PDelete   float64
	PFailIns  float64
	PRollback float64
	PMerge    float64
	PSel      float64
	PMidDump  float64 // the scheduler dumps the primary between two steps
	Snapshot  bool    // one more actor takes a snapshot meanwhile; it is restored into a fresh collection at the end
	Snapshot2 bool    // and another one a second snapshot: refused while the first holds the recorder, accepted once the first copies
	Keyed     bool    // rows are created through InsertKey / UpsertKey
	Fine      bool    // park at commit.drawn as well
	Schedules int     // schedules explored per program set
	Mode      string  // random | dfs
}

type concGen struct {
	p   ConcProfile
	rnd *rand.Rand
}

func (g *concGen) value(d ColDesc, k string) any {
	switch d.Kind {
	case "int":
		if k == "mrg" {
			return 1 + g.rnd.Intn(3)
		}
		return g.rnd.Intn(10)
	case "str":
		n := 1 + g.rnd.Intn(2)
		s := make([]int, n)
		for i := range s {
			s[i] = g.rnd.Intn(3)
		}
		return s
	case "bool":
		return g.rnd.Intn(2) == 0
	case "enum":
		return []string{"e1", "e2", "e3"}[g.rnd.Intn(3)]
	}
	names := TokenNames(d.Repr)
	return names[g.rnd.Intn(len(names))]
}

func (g *concGen) writes(n int) []W {
	var ws []W
	for i := 0; i < n; i++ {
		d := g.p.Cols[g.rnd.Intn(len(g.p.Cols))]
		if d.Kind == "key" {
			continue
		}
		k := "put"
		if d.Merge != "" && d.Merge != "affine" && (d.Kind == "int" || d.Kind == "str") && g.rnd.Float64() < g.p.PMerge {
			k = "mrg"
		}
		if d.Merge == "sat" || d.Merge == "replace" {
			// values near the fixed points of the merge function
			if k == "mrg" {
				ws = append(ws, W{d.Name, k, []int{0, 1, 2, 8, 9}[g.rnd.Intn(5)]})
			} else {
				ws = append(ws, W{d.Name, k, []int{0, 7, 8, 9}[g.rnd.Intn(4)]})
			}
			continue
		}
		if d.Merge == "affine" && g.rnd.Float64() < g.p.PMerge/2 {
			k = "mrg"
		}
		ws = append(ws, W{d.Name, k, g.value(d, k)})
	}
	return ws
}

func (g *concGen) program(nrows int) []CTxn {
	var prog []CTxn
	for t := 0; t < g.p.Txns; t++ {
		var tx CTxn
		if g.rnd.Float64() < g.p.PSel {
			tx.Ops = append(tx.Ops, COp{K: "sel"})
		}
		n := 1 + g.rnd.Intn(g.p.MaxBody)
		for i := 0; i < n; i++ {
			r := g.rnd.Float64()
			if g.p.Keyed {
				key := []string{"k1", "k2", "k3"}[g.rnd.Intn(3)]
				switch {
				case r < 0.45:
					tx.Ops = append(tx.Ops, COp{K: "ups", Key: key, Ws: g.writes(g.rnd.Intn(2))})
				case r < 0.65:
					tx.Ops = append(tx.Ops, COp{K: "ink", Key: key, Ws: g.writes(g.rnd.Intn(2)), Fail: g.rnd.Float64() < g.p.PFailIns})
				case r < 0.8:
					tx.Ops = append(tx.Ops, COp{K: "dlk", Key: key})
				case r < 0.9:
					tx.Ops = append(tx.Ops, COp{K: "qk", Key: key, Ws: g.writes(g.rnd.Intn(2))})
				case nrows > 0:
					tx.Ops = append(tx.Ops, COp{K: "del", Row: g.rnd.Intn(nrows)})
				}
				continue
			}
			switch {
			case r < g.p.PInsert:
				tx.Ops = append(tx.Ops, COp{K: "ins", Ws: g.writes(g.rnd.Intn(3)), Fail: g.rnd.Float64() < g.p.PFailIns})
			case r < g.p.PInsert+g.p.PDelete && nrows > 0:
				tx.Ops = append(tx.Ops, COp{K: "del", Row: g.rnd.Intn(nrows)})
			case nrows > 0:
				tx.Ops = append(tx.Ops, COp{K: "at", Row: g.rnd.Intn(nrows), Ws: g.writes(1 + g.rnd.Intn(2))})
			}
		}
		tx.Rollback = g.rnd.Float64() < g.p.PRollback
		for _, op := range tx.Ops {
			// the usual pattern: the callback's error is returned and the transaction rolls back
			if op.Fail && g.rnd.Float64() < 0.7 {
				tx.Rollback = true
			}
		}
		prog = append(prog, tx)
	}
	return prog
}

// ---- one run ---------------------------------------------------------------------------------

// chooser decides which live actor runs next; n is the number of candidates.
type chooser func(n int) int

func runConcOnce(p ConcProfile, seed int64, progs [][]CTxn, choose chooser, midDump func() bool) (out []Ev) {
	w := NewWorld()
	defer w.Close()
	defer func() {
		if r := recover(); r != nil {
			w.T.Log(Ev{"e": "panic", "t": "m", "what": fmt.Sprint(r), "stack": string(debug.Stack())})
			out = w.T.Finish()
		}
	}()
	if p.Name == "c09" && seed%2 == 0 {
		w.WideCols["a"] = true // values and deltas of more than 32 bits (more than 20 for the 32-bit kinds)
	}
	P := w.NewColl("P", p.Capacity, p.Transport, 0)
	var R *Coll
	if p.Replica {
		R = w.NewColl("R", p.Capacity, p.Transport, 0)
	}
	both := func(f func(c *Coll)) {
		f(P)
		if R != nil {
			f(R)
		}
	}
	s := NewSched(w)
	defer s.Close()
	if !p.Fine {
		s.Skip["commit.drawn"] = true
	}
	for _, d := range p.Cols {
		d := d
		both(func(c *Coll) { c.CreateColumn(d) })
	}
	for _, x := range p.Idx {
		x := x
		both(func(c *Coll) { c.CreateIndex(x) })
	}
	for _, x := range p.Trigs {
		x := x
		both(func(c *Coll) { c.CreateTrigger(x[0], x[1]) })
	}
	prng := rand.New(rand.NewSource(seed))
	switch p.Prologue {
	case "block1":
		P.BulkInsert(16384 - (p.InitRows+1)/2)
	case "edge": // the tracked rows fill block 0 exactly: the next insert opens a block that has never been committed
		P.BulkInsert(16384 - p.InitRows)
	case "three":
		P.BulkInsert(2*16384 - (p.InitRows+1)/2)
		P.BulkDelete(16384-uint32(p.InitRows/2)-1, 16384+uint32(p.InitRows/2))
	}
	g := &concGen{p: p, rnd: prng}
	if p.Keyed {
		P.Keys = []string{"k1", "k2", "k3"}
		if R != nil {
			R.Keys = P.Keys
		}
	}
	for i := 0; i < p.InitRows; i++ {
		if p.Keyed {
			key := P.Keys[i%len(P.Keys)]
			P.Txn("m", func(x *Tx) error { x.UpsertKey(key, g.writes(len(p.Cols))); return nil })
			continue
		}
		P.Txn("m", func(x *Tx) error { x.Insert(g.writes(len(p.Cols)), false); return nil })
	}
	all := P.Dump(1)
	var rows []uint32
	for _, o := range all {
		if w.IsTracked(o) {
			rows = append(rows, o)
		}
	}
	for i, prog := range progs {
		name := fmt.Sprintf("w%d", i+1)
		prog := prog
		s.Spawn(name, func() {
			for _, tx := range prog {
				tx := tx
				P.Txn(name, func(x *Tx) error {
					for _, op := range tx.Ops {
						s.Yield("api")
						switch op.K {
						case "sel":
							x.Sel()
						case "ins":
							x.Insert(op.Ws, op.Fail)
						case "at":
							if op.Row < len(rows) {
								x.At(rows[op.Row], op.Ws, false, 0)
							}
						case "del":
							if op.Row < len(rows) {
								x.Delete(rows[op.Row])
							}
						case "ups":
							x.UpsertKey(op.Key, op.Ws)
						case "ink":
							x.InsertKey(op.Key, op.Ws, op.Fail)
						case "dlk":
							x.DeleteKey(op.Key)
						case "qk":
							x.QueryKey(op.Key, op.Ws, 0)
						}
					}
					s.Yield("api")
					if tx.Rollback {
						return ErrFail
					}
					return nil
				})
				s.Yield("api")
			}
		})
	}
	if p.Snapshot {
		s.Spawn("sn", func() {
			s.Yield("api")
			P.Snapshot("sn", "f1", nil)
		})
	}
	if p.Snapshot && p.Snapshot2 {
		s.Spawn("sn2", func() {
			s.Yield("api")
			P.Snapshot("sn2", "f2", nil)
		})
	}
	for {
		live := s.Live()
		if len(live) == 0 {
			break
		}
		a := live[choose(len(live))]
		if s.Step(a) == "hang" {
			break
		}
		if midDump != nil && midDump() {
			P.Dump(1)
		}
	}
	hung := false
	for _, a := range s.Actors {
		hung = hung || a.Hung
	}
	if !hung {
		P.Dump(0)
		if R != nil {
			P.ReplayTo(R, "r")
			R.Dump(0)
		}
		if _, ok := w.Blobs["f1"]; ok && p.Snapshot {
			S := w.NewColl("S1", p.Capacity, p.Transport, 0)
			S.Keys = P.Keys
			for _, d := range p.Cols {
				S.CreateColumn(d)
			}
			for _, x := range p.Idx {
				S.CreateIndex(x)
			}
			S.Restore("rs", "f1", -1)
			S.Dump(0)
			if _, ok := w.Blobs["f2"]; ok && p.Snapshot2 {
				S2 := w.NewColl("S2", p.Capacity, p.Transport, 0)
				S2.Keys = P.Keys
				for _, d := range p.Cols {
					S2.CreateColumn(d)
				}
				for _, x := range p.Idx {
					S2.CreateIndex(x)
				}
				S2.Restore("rs", "f2", -1)
				S2.Dump(0)
			}
		}
	}
	return w.T.Finish()
}

// RunConc explores schedules of one randomly generated set of programs and returns one trace per
// schedule. Mode "random": Schedules random schedules. Mode "dfs": depth-first enumeration of the
// interleavings at the yield points of the real code, bounded by Schedules.
func RunConc(seed int64, p ConcProfile) [][]Ev {
	g := &concGen{p: p, rnd: rand.New(rand.NewSource(seed))}
	progs := make([][]CTxn, p.Writers)
	for i := range progs {
		progs[i] = g.program(p.InitRows)
	}
	var out [][]Ev
	if p.Mode == "dfs" {
		// stateless depth-first search: a schedule is the sequence of choices; replay a prefix, then
		// always take choice 0, remember how many alternatives each position had
		var prefix []int
		for len(out) < p.Schedules {
			var taken, width []int
			evs := runConcOnce(p, seed, progs, func(n int) int {
				c := 0
				if len(taken) < len(prefix) {
					c = prefix[len(taken)]
				}
				if c >= n {
					c = n - 1
				}
				taken = append(taken, c)
				width = append(width, n)
				return c
			}, nil)
			out = append(out, evs)
			// next prefix: increment the last position that has an alternative left
			i := len(taken) - 1
			for i >= 0 && taken[i]+1 >= width[i] {
				i--
			}
			if i < 0 {
				break
			}
			prefix = append(append([]int{}, taken[:i]...), taken[i]+1)
		}
		return out
	}
	for k := 0; k < p.Schedules; k++ {
		r := rand.New(rand.NewSource(seed*7919 + int64(k)))
		// priority-style schedules: stick with an actor for a random burst, so that long preemptions occur
		cur, burst := 0, 0
		evs := runConcOnce(p, seed, progs, func(n int) int {
			if burst <= 0 || cur >= n {
				cur = r.Intn(n)
				burst = 1 + r.Intn(6)
			}
			burst--
			return cur
		}, func() bool { return r.Float64() < p.PMidDump })
		out = append(out, evs)
	}
	return out
}

// ConcProfileFor builds the profile variant for a scenario seed.
func ConcProfileFor(name string, seed int64) ConcProfile {
	r := rand.New(rand.NewSource(seed ^ 0xc0c0))
	numRepr := func() string { return NumericReprs[r.Intn(len(NumericReprs))] }
	p := ConcProfile{Name: name, Capacity: []int{64, 1024, 20000}[r.Intn(3)], Transport: []string{"chan", "log"}[r.Intn(2)],
		Prologue: []string{"", "block1", "block1", "three"}[r.Intn(4)], InitRows: 4, Writers: 2, Txns: 1, MaxBody: 3,
		PInsert: 0.25, PDelete: 0.15, PMerge: 0.5, PSel: 0.3, Schedules: 8, Mode: "random", Replica: true}
	switch name {
	case "c06": // replica convergence under interleaved writers
		p.Cols = []ColDesc{{"a", "int", "add", numRepr()}, {"s", "str", "", "string"}}
		p.Idx = []IdxDesc{{"big", "a", "ge", 5}}
		p.Writers = 2 + r.Intn(2)
		p.Txns = 1 + r.Intn(2)
		p.Snapshot = r.Intn(2) == 0 // the stream feeds the replica whether or not a snapshot is recording the same commits
	case "c06dfs":
		p.Cols = []ColDesc{{"a", "int", "add", "int"}}
		p.Idx = []IdxDesc{{"big", "a", "ge", 5}}
		p.Mode, p.Schedules, p.MaxBody = "dfs", 400, 2
		p.Prologue = []string{"", "block1"}[r.Intn(2)]
	case "c09": // concurrent merges: additive, order-sensitive, overwrites in between
		p.Cols = []ColDesc{{"a", "int", []string{"add", "affine", "sat", "replace"}[r.Intn(4)], []string{"int", "int32", "int64", "uint64", "float64", "record", "int16", "uint16"}[r.Intn(8)]},
			{"s", "str", "concat", "string"}}
		p.PMerge, p.PInsert, p.PDelete = 0.85, 0.05, 0.05
		p.PRollback = 0.15 // merges of a transaction that gives up are not applied - not by anybody
		p.Writers = 2 + r.Intn(3)
		p.Txns = 1 + r.Intn(2)
		p.InitRows = 3
	case "c11": // concurrent inserts and deletes: offsets never collide
		p.Cols = []ColDesc{{"a", "int", "add", numRepr()}, {"t", "tok", "", "string"}}
		p.PInsert, p.PDelete, p.PFailIns, p.PRollback, p.PSel = 0.5, 0.3, 0.15, 0.15, 0.5
		p.Writers = 2 + r.Intn(2)
		p.Txns = 2
		p.PMidDump = 0.1
	case "c15": // ids and per-block order under interleaved commits, fine-grained yield points
		p.Cols = []ColDesc{{"a", "int", "add", numRepr()}}
		p.Fine = true
		p.Writers = 2 + r.Intn(2)
		p.Txns = 2
		p.Prologue = []string{"block1", "three"}[r.Intn(2)]
		p.Snapshot = r.Intn(2) == 0 // the stream is the same whether or not a snapshot is recording the commits meanwhile
	case "c08": // a snapshot beside committing writers, parked at every point of both protocols
		p.Cols = []ColDesc{{"a", "int", []string{"add", "affine"}[r.Intn(2)], numRepr()}, {"s", "str", "", "string"}}
		p.Idx = []IdxDesc{{"big", "a", "ge", 5}}
		p.Snapshot = true
		p.Snapshot2 = r.Intn(2) == 0
		p.Replica = false
		p.Writers = 2 + r.Intn(3)
		p.Txns = 1 + r.Intn(2)
		p.Prologue = []string{"", "block1", "edge", "three", "edge"}[r.Intn(5)]
		p.Schedules = 12
		p.PRollback, p.PFailIns = 0.1, 0.1
		p.PInsert = 0.4
	case "c14x": // two overlapping snapshots: the second is refused while the first holds the recorder and accepted once the first
		// copies; whichever returns first must leave the other's recorder alone; writers keep committing throughout
		p.Cols = []ColDesc{{"a", "int", "add", numRepr()}, {"s", "str", "", "string"}}
		p.Snapshot, p.Snapshot2 = true, true
		p.Replica = false
		p.Writers = 2
		p.Txns = 3
		p.Prologue = []string{"block1", "edge", "three"}[r.Intn(3)]
		p.Schedules = 16
		p.PInsert = 0.3
	case "c08dfs":
		p.Cols = []ColDesc{{"a", "int", "add", "int"}}
		p.Snapshot = true
		p.Replica = false
		p.Mode, p.Schedules, p.MaxBody = "dfs", 500, 2
		p.Prologue = []string{"", "block1"}[r.Intn(2)]
	case "c12": // concurrent upserts / inserts / deletes of the same keys, parked between lookup and insert
		p.Cols = []ColDesc{{"k", "key", "", "key"}, {"a", "int", "add", numRepr()}}
		p.Keyed = true
		p.InitRows = r.Intn(3)
		p.Prologue = []string{"", "block1"}[r.Intn(2)]
		p.Writers = 2 + r.Intn(2)
		p.Txns = 1 + r.Intn(2)
		p.PRollback, p.PFailIns = 0.1, 0.1
		p.Schedules = 12
	case "c02": // atomicity under concurrency: observers in the middle of other transactions
		p.Cols = []ColDesc{{"a", "int", "add", numRepr()}, {"b", "bool", "", "bool"}}
		p.Idx = []IdxDesc{{"on", "b", "true", 0}}
		p.PRollback, p.PFailIns, p.PMidDump = 0.3, 0.2, 0.3
		p.Txns = 2
		p.Snapshot = r.Intn(2) == 0 // a snapshot looks at the collection while transactions are in flight
	case "c02i": // atomicity of inserts: failing inserts and rollbacks beside other transactions' inserts (an offset given back
		// by one transaction is taken by another at once: nothing the first does later may touch it)
		p.Cols = []ColDesc{{"a", "int", "add", numRepr()}}
		p.PInsert, p.PDelete, p.PMerge = 0.6, 0.1, 0.3
		p.PRollback, p.PFailIns, p.PMidDump = 0.5, 0.35, 0.3
		p.Writers = 3
		p.Txns = 2
	}
	return p
}
