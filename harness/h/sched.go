package h

import (
	"fmt"
	"runtime/debug"
	"sync"
	"time"

	"github.com/kelindar/column"
)

// Actor is one goroutine stepped by the scheduler: it runs until its next yield point (a verif
// hook inside the library, or an explicit yield in harness code) and parks there.
type Actor struct {
	Name   string
	parked chan string
	resume chan struct{}
	Done   bool
	At     string // where it is parked
	Hung   bool
}

// Sched runs actors one at a time. Exactly one goroutine (an actor or the scheduler itself) runs
// between two scheduling decisions, so the order of logged events is the real order.
type Sched struct {
	W       *World
	mu      sync.Mutex
	byGid   map[int64]*Actor
	Actors  []*Actor
	Skip    map[string]bool // hook points that do not park (used to coarsen schedules)
	Timeout time.Duration
}

func NewSched(w *World) *Sched {
	s := &Sched{W: w, byGid: map[int64]*Actor{}, Skip: map[string]bool{}, Timeout: 10 * time.Second}
	column.VerifYield = func(point string, txn *column.Txn, chunk uint32) {
		s.mu.Lock()
		a := s.byGid[Gid()]
		s.mu.Unlock()
		if point == "commit.after" && !w.Bulk {
			w.T.Log(Ev{"e": "after", "t": w.T.Actor()})
		}
		if point == "key.checked" {
			w.KeyHook()
		}
		if len(point) > 5 && point[:5] == "snap." {
			w.SnapHook(point, chunk)
		}
		if a == nil || s.Skip[point] {
			return // unmanaged goroutine (the scheduler itself, vacuum, s2 writers)
		}
		a.yield(fmt.Sprintf("%s/%d", point, chunk))
	}
	return s
}

func (a *Actor) yield(at string) {
	a.parked <- at
	<-a.resume
}

// Yield is an explicit scheduling point in harness code (between API calls of a transaction body).
func (s *Sched) Yield(at string) {
	s.mu.Lock()
	a := s.byGid[Gid()]
	s.mu.Unlock()
	if a != nil {
		a.yield(at)
	}
}

// Spawn starts an actor; it does not run before its first Step.
func (s *Sched) Spawn(name string, fn func()) *Actor {
	a := &Actor{Name: name, parked: make(chan string), resume: make(chan struct{}), At: "start"}
	ready := make(chan struct{})
	go func() {
		s.mu.Lock()
		s.byGid[Gid()] = a
		s.mu.Unlock()
		s.W.T.Register(name)
		close(ready)
		<-a.resume
		defer func() {
			if r := recover(); r != nil {
				s.W.T.Log(Ev{"e": "panic", "t": name, "what": fmt.Sprint(r), "stack": string(debug.Stack())})
			}
			s.W.T.Unregister()
			a.parked <- "done"
		}()
		fn()
	}()
	<-ready
	s.Actors = append(s.Actors, a)
	return a
}

// Step lets the actor run to its next yield point. A step that does not complete within the
// watchdog is a hang: the specification enables every step the scheduler takes.
func (s *Sched) Step(a *Actor) string {
	if a.Done || a.Hung {
		return "done"
	}
	a.resume <- struct{}{}
	select {
	case at := <-a.parked:
		a.At = at
		if at == "done" {
			a.Done = true
		}
		return at
	case <-time.After(s.Timeout):
		a.Hung = true
		s.W.T.Log(Ev{"e": "hang", "t": a.Name, "after": a.At})
		return "hang"
	}
}

// Live lists the actors that can still be stepped.
func (s *Sched) Live() []*Actor {
	var out []*Actor
	for _, a := range s.Actors {
		if !a.Done && !a.Hung {
			out = append(out, a)
		}
	}
	return out
}

func (s *Sched) Close() { column.VerifYield = nil }
