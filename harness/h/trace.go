// Package h is the conformance harness: it drives the real kelindar/column code through its public
// API (plus the scheduling hook that exists under the verif build tag), records what the code did
// as ndjson events, and leaves every judgement to the TLA+ trace specifications under /verif/spec.
package h

import (
	"bufio"
	"bytes"
	"encoding/json"
	"fmt"
	"os"
	"runtime"
	"sort"
	"strings"
	"sync"
)

// Ev is one trace event (one ndjson line).
type Ev map[string]any

// Tracer collects events in the order in which they were logged. Events are only logged at points
// that the code's own locks (or the single running actor) order, see DESIGN.md section 5.
type Tracer struct {
	mu     sync.Mutex
	evs    []Ev
	actors map[int64]string // goroutine id -> actor name
	cur    string           // actor of the sequential driver
}

func NewTracer() *Tracer { return &Tracer{actors: map[int64]string{}, cur: "m"} }

func (t *Tracer) Log(e Ev) {
	t.mu.Lock()
	t.evs = append(t.evs, e)
	t.mu.Unlock()
}

func (t *Tracer) Len() int { t.mu.Lock(); defer t.mu.Unlock(); return len(t.evs) }

// Gid returns the id of the calling goroutine.
func Gid() int64 {
	var b [64]byte
	n := runtime.Stack(b[:], false)
	var id int64
	fmt.Sscanf(strings.TrimPrefix(string(b[:n]), "goroutine "), "%d", &id)
	return id
}

func (t *Tracer) Register(name string) {
	t.mu.Lock()
	t.actors[Gid()] = name
	t.mu.Unlock()
}

func (t *Tracer) Unregister() {
	t.mu.Lock()
	delete(t.actors, Gid())
	t.mu.Unlock()
}

// Actor names the actor on whose behalf the calling goroutine runs.
func (t *Tracer) Actor() string {
	t.mu.Lock()
	defer t.mu.Unlock()
	if a, ok := t.actors[Gid()]; ok {
		return a
	}
	return t.cur
}

func (t *Tracer) SetCur(a string) { t.mu.Lock(); t.cur = a; t.mu.Unlock() }

// Finish renumbers commit ids by rank (the real ids are clock-seeded 64-bit numbers; only
// distinctness, zero-ness and order matter) and returns the events.
func (t *Tracer) Finish() []Ev {
	t.mu.Lock()
	defer t.mu.Unlock()
	ids := map[uint64]bool{}
	collect := func(v any) {
		switch x := v.(type) {
		case uint64:
			if x != 0 {
				ids[x] = true
			}
		case []uint64:
			for _, y := range x {
				if y != 0 {
					ids[y] = true
				}
			}
		}
	}
	for _, e := range t.evs {
		collect(e["id"])
		collect(e["chid"])
		collect(e["ids"])
	}
	sorted := make([]uint64, 0, len(ids))
	for id := range ids {
		sorted = append(sorted, id)
	}
	sort.Slice(sorted, func(i, j int) bool { return sorted[i] < sorted[j] })
	rank := map[uint64]int{0: 0}
	for i, id := range sorted {
		rank[id] = i + 1
	}
	for _, e := range t.evs {
		if x, ok := e["id"].(uint64); ok {
			e["id"] = rank[x]
		}
		if x, ok := e["chid"].(uint64); ok {
			e["chid"] = rank[x]
		}
		if xs, ok := e["ids"].([]uint64); ok {
			out := make([]int, len(xs))
			for i, x := range xs {
				out[i] = rank[x]
			}
			e["ids"] = out
		}
	}
	return t.evs
}

func toInt(v any) int {
	switch x := v.(type) {
	case int:
		return x
	case uint32:
		return int(x)
	case int64:
		return int(x)
	case uint64:
		return int(x)
	case float64:
		return int(x)
	}
	panic(fmt.Sprintf("toInt: %T", v))
}

// WriteTrace writes events as ndjson.
func WriteTrace(path string, evs []Ev) error {
	var buf bytes.Buffer
	w := bufio.NewWriter(&buf)
	enc := json.NewEncoder(w)
	for _, e := range evs {
		if err := enc.Encode(e); err != nil {
			return fmt.Errorf("encode %v: %w", e, err)
		}
	}
	w.Flush()
	return os.WriteFile(path, buf.Bytes(), 0o644)
}
