package h

import (
	"fmt"
	"math/rand"
	"runtime/debug"
	"sort"
	"strconv"
	"sync"
	"sync/atomic"
	"time"

	"github.com/kelindar/column"
	"github.com/kelindar/column/commit"
)

type gateLogger struct {
	mu   sync.Mutex
	gate func(cm commit.Commit)
}

func (g *gateLogger) Append(cm commit.Commit) error {
	g.mu.Lock()
	f := g.gate
	g.mu.Unlock()
	if f != nil {
		f(cm)
	}
	return nil
}

type triple [3]int

// RunLatch: real parallelism. Writers keep (a, b, s) = (k, 2k, "v"k) on every row they touch (three
// columns of different kinds written by one transaction); readers collect, per row, the distinct
// triples read inside one callback through QueryAt, Range and filtered Range. Then the probes.
func RunLatch(seed int64, dur time.Duration) (out []Ev) {
	w := NewWorld()
	defer func() {
		if r := recover(); r != nil {
			w.T.Log(Ev{"e": "panic", "t": "m", "what": fmt.Sprint(r), "stack": string(debug.Stack())})
			out = w.T.Finish()
		}
	}()
	rnd := rand.New(rand.NewSource(seed))
	gl := &gateLogger{}
	P := column.NewCollection(column.Options{Capacity: 1024, Writer: gl, Vacuum: time.Hour})
	defer P.Close()
	P.CreateColumn("a", column.ForInt64())
	P.CreateColumn("b", column.ForInt32())
	P.CreateColumn("s", column.ForString())
	// a bool column written together with the triple (f = k is odd): bool columns and bitmap indexes keep ONE bitmap for all
	// blocks, which is reallocated when the collection grows - beside commits that hold another block's latch
	P.CreateColumn("f", column.ForBool())
	P.CreateIndex("pos", "a", func(r column.Reader) bool { return r.Int() >= 0 })
	P.CreateSortIndex("byS", "s")
	// rows in two blocks: the last rows of block 0 and the first of block 1
	P.Query(func(txn *column.Txn) error {
		for i := 0; i < 16384-8; i++ {
			txn.Insert(func(column.Row) error { return nil })
		}
		return nil
	})
	var rows []uint32
	for i := 0; i < 16; i++ {
		o, _ := P.Insert(func(r column.Row) error {
			r.SetInt64("a", 0)
			r.SetInt32("b", 0)
			r.SetString("s", "v0")
			return nil
		})
		rows = append(rows, o)
	}
	ver := make([]int64, len(rows))
	stop := int32(0)
	var wg sync.WaitGroup
	write := func(r column.Row, k int64) {
		r.SetInt64("a", k)
		r.SetInt32("b", int32(2*k))
		r.SetString("s", "v"+strconv.FormatInt(k, 10))
		r.SetBool("f", k%2 == 1)
	}
	// the collection grows meanwhile: a block of value-less rows every few tens of milliseconds (every new block grows every column)
	wg.Add(1)
	go func() {
		defer wg.Done()
		for n := 0; n < 30 && atomic.LoadInt32(&stop) == 0; n++ {
			P.Query(func(txn *column.Txn) error {
				for i := 0; i < 16384; i++ {
					txn.Insert(func(column.Row) error { return nil })
				}
				return nil
			})
			time.Sleep(time.Duration(20+n) * time.Millisecond)
		}
	}()
	for g := 0; g < 5; g++ {
		wg.Add(1)
		lr := rand.New(rand.NewSource(seed*31 + int64(g)))
		go func() {
			defer wg.Done()
			// a panic of the library under concurrent use is something the real code did: it is recorded (no action of the
			// specification explains it) and the run winds down
			defer func() {
				if r := recover(); r != nil {
					w.T.Log(Ev{"e": "panic", "t": "stress", "what": fmt.Sprint(r), "stack": string(debug.Stack())})
					atomic.StoreInt32(&stop, 1)
				}
			}()
			for atomic.LoadInt32(&stop) == 0 {
				i := lr.Intn(len(rows))
				if lr.Intn(4) == 0 { // two rows (often in different blocks) in one transaction
					j := lr.Intn(len(rows))
					P.Query(func(txn *column.Txn) error {
						txn.QueryAt(rows[i], func(r column.Row) error { write(r, atomic.AddInt64(&ver[i], 1)); return nil })
						if j != i {
							txn.QueryAt(rows[j], func(r column.Row) error { write(r, atomic.AddInt64(&ver[j], 1)); return nil })
						}
						return nil
					})
					continue
				}
				// now and then a writer gives up after buffering its writes: the rollback must leave nothing behind - no value,
				// and no transaction object that two goroutines would then share
				abort := lr.Intn(40) == 0
				P.QueryAt(rows[i], func(r column.Row) error {
					write(r, atomic.AddInt64(&ver[i], 1))
					if abort {
						return ErrFail
					}
					return nil
				})
			}
		}()
	}
	type seenT map[uint32]map[triple]bool
	var smu sync.Mutex
	all := map[string]seenT{"queryat": {}, "range": {}, "filtered": {}, "ascend": {}, "nested": {}}
	var reads int64
	parse := func(s string) int {
		if len(s) < 2 || s[0] != 'v' {
			return -1
		}
		n, err := strconv.Atoi(s[1:])
		if err != nil {
			return -1
		}
		return n
	}
	// the bool read in the same callback is bound into the witness: a triple whose flag is not the one written with it is
	// reported with a second component no version has (latched readers only: Ascend readers run without the latch as built)
	bound := func(a int64, b int32, f bool) int32 {
		if f != (a%2 == 1) {
			return -1 - b
		}
		return b
	}
	for g := 0; g < 13; g++ {
		wg.Add(1)
		how := []string{"queryat", "range", "filtered", "queryat", "range", "filtered", "queryat", "range", "filtered", "ascend", "ascend", "nested", "nested"}[g]
		lr := rand.New(rand.NewSource(seed*17 + int64(g)))
		go func() {
			defer wg.Done()
			// a panic of the library under concurrent use is something the real code did: it is recorded (no action of the
			// specification explains it) and the run winds down
			defer func() {
				if r := recover(); r != nil {
					w.T.Log(Ev{"e": "panic", "t": "stress", "what": fmt.Sprint(r), "stack": string(debug.Stack())})
					atomic.StoreInt32(&stop, 1)
				}
			}()
			local := seenT{}
			note := func(o uint32, a int64, b int32, s string) {
				if local[o] == nil {
					local[o] = map[triple]bool{}
				}
				local[o][triple{int(a), int(b), parse(s)}] = true
				atomic.AddInt64(&reads, 1)
			}
			for atomic.LoadInt32(&stop) == 0 {
				switch how {
				case "queryat":
					o := rows[lr.Intn(len(rows))]
					P.QueryAt(o, func(r column.Row) error {
						a, _ := r.Int64("a")
						b, _ := r.Int32("b")
						s, _ := r.String("s")
						f := r.Bool("f")
						note(o, a, bound(a, b, f), s)
						return nil
					})
				case "nested":
					// point reads of rows of the NEXT block from inside an iteration over the rows of the first one (the
					// transaction's own QueryAt, several in a row): each nested callback is latched on its own block
					// (nesting goes one way only: two readers nesting in opposite directions can deadlock behind queued writers)
					P.Query(func(txn *column.Txn) error {
						txn.With("a")
						txn.Range(func(idx uint32) {
							if idx >= 16384 {
								return
							}
							for k := 0; k < 3; k++ {
								o := rows[8+lr.Intn(8)]
								txn.QueryAt(o, func(r column.Row) error {
									a, _ := r.Int64("a")
									b, _ := r.Int32("b")
									s, _ := r.String("s")
									f := r.Bool("f")
									note(o, a, bound(a, b, f), s)
									return nil
								})
							}
						})
						return nil
					})
				case "ascend":
					// iteration in sorted order: the callback is positioned on a row like Range's
					P.Query(func(txn *column.Txn) error {
						txn.With("a")
						ca, cb, cs := txn.Int64("a"), txn.Int32("b"), txn.String("s")
						txn.Ascend("byS", func(idx uint32) {
							a, _ := ca.Get()
							b, _ := cb.Get()
							s, _ := cs.Get()
							note(idx, a, b, s)
						})
						return nil
					})
				default:
					P.Query(func(txn *column.Txn) error {
						if how == "filtered" {
							txn.With("pos").WithInt("a", func(v int64) bool { return v >= 0 })
						} else {
							txn.With("a")
						}
						ca, cb, cs, cf := txn.Int64("a"), txn.Int32("b"), txn.String("s"), txn.Bool("f")
						txn.Range(func(idx uint32) {
							a, _ := ca.Get()
							b, _ := cb.Get()
							s, _ := cs.Get()
							note(idx, a, bound(a, b, cf.Get()), s)
						})
						return nil
					})
				}
			}
			smu.Lock()
			for o, m := range local {
				if all[how][o] == nil {
					all[how][o] = map[triple]bool{}
				}
				for t := range m {
					all[how][o][t] = true
				}
			}
			smu.Unlock()
		}()
	}
	time.Sleep(dur)
	atomic.StoreInt32(&stop, 1)
	done := make(chan struct{})
	go func() { wg.Wait(); close(done) }()
	select {
	case <-done:
	case <-time.After(20 * time.Second):
		w.T.Log(Ev{"e": "hang", "t": "stress", "after": "writers and readers did not terminate"})
		return w.T.Finish()
	}
	for i, o := range rows {
		w.T.Log(Ev{"e": "lmax", "o": int(o), "k": int(atomic.LoadInt64(&ver[i]))})
	}
	total := 0
	for _, how := range []string{"queryat", "range", "filtered", "ascend", "nested"} {
		var os []int
		for o := range all[how] {
			os = append(os, int(o))
		}
		sort.Ints(os)
		for _, o := range os {
			var seen [][3]int
			for t := range all[how][uint32(o)] {
				seen = append(seen, [3]int(t))
			}
			sort.Slice(seen, func(i, j int) bool {
				return seen[i][0] < seen[j][0] || (seen[i][0] == seen[j][0] && seen[i][1] < seen[j][1])
			})
			total += len(seen)
			// lossless run-length form of the sorted set: [a, b, s, n] stands for the n triples (a+i, b+2i, s+i), i < n
			// (a long run reads hundreds of thousands of versions per row; listing each made traces of 100+ MB)
			runs := [][4]int{}
			for _, t := range seen {
				if k := len(runs) - 1; k >= 0 {
					r := &runs[k]
					if t[0] == r[0]+r[3] && t[1] == r[1]+2*r[3] && t[2] == r[2]+r[3] {
						r[3]++
						continue
					}
				}
				runs = append(runs, [4]int{t[0], t[1], t[2], 1})
			}
			// (in pieces: a long run leaves tens of thousands of runs per row)
			for lo := 0; lo == 0 || lo < len(runs); lo += 4000 {
				hi := lo + 4000
				if hi > len(runs) {
					hi = len(runs)
				}
				w.T.Log(Ev{"e": "lread", "how": how, "o": o, "runs": runs[lo:hi], "distinct": len(seen), "reads": int(atomic.LoadInt64(&reads))})
			}
		}
	}
	_ = rnd
	// probes: a writer parked inside the logger callback holds its block's latch
	for _, i := range []int{0, len(rows) - 1} {
		blk := int(rows[i] >> 14)
		inside, release := make(chan struct{}), make(chan struct{})
		gl.mu.Lock()
		gl.gate = func(cm commit.Commit) { close(inside); <-release }
		gl.mu.Unlock()
		go P.QueryAt(rows[i], func(r column.Row) error { write(r, atomic.AddInt64(&ver[i], 1)); return nil })
		<-inside
		gl.mu.Lock()
		gl.gate = nil
		gl.mu.Unlock()
		w.T.Log(Ev{"e": "lheld", "b": blk})
		probe := func(o uint32) chan struct{} {
			ch := make(chan struct{})
			go func() {
				P.QueryAt(o, func(r column.Row) error { r.Int64("a"); return nil })
				close(ch)
			}()
			return ch
		}
		same, other := probe(rows[i]), probe(rows[len(rows)-1-i])
		completed := func(ch chan struct{}, wait time.Duration) bool {
			select {
			case <-ch:
				return true
			case <-time.After(wait):
				return false
			}
		}
		w.T.Log(Ev{"e": "lprobe", "rb": int(rows[len(rows)-1-i] >> 14), "completed": completed(other, 5*time.Second)})
		w.T.Log(Ev{"e": "lprobe", "rb": blk, "completed": completed(same, 300*time.Millisecond)})
		close(release)
		w.T.Log(Ev{"e": "lrel", "b": blk})
		w.T.Log(Ev{"e": "lprobe", "rb": blk, "completed": completed(same, 5*time.Second)})
	}
	// a writer that dies inside the latch: user code running there (here: a merge function) panics after the first column of
	// the commit has been applied and before the second; the caller recovers. Whatever the library does about the latch, a
	// reader must not be shown the half-applied row: the only committed version of that row is (0, 0)
	Q := column.NewCollection(column.Options{Capacity: 64, Vacuum: time.Hour})
	defer Q.Close()
	Q.CreateColumn("a", column.ForInt64())
	Q.CreateColumn("b", column.ForInt64(column.WithMerge(func(v, d int64) int64 {
		if d == -999 {
			panic("insufficient funds")
		}
		return v + d
	})))
	qo, _ := Q.Insert(func(r column.Row) error { r.SetInt64("a", 0); r.SetInt64("b", 0); return nil })
	func() {
		defer func() { recover() }()
		Q.QueryAt(qo, func(r column.Row) error { r.MergeInt64("a", 1); r.MergeInt64("b", -999); return nil })
	}()
	type pair struct{ a, b int64 }
	got := make(chan pair, 1)
	go func() {
		Q.QueryAt(qo, func(r column.Row) error {
			a, _ := r.Int64("a")
			b, _ := r.Int64("b")
			got <- pair{a, b}
			return nil
		})
	}()
	select {
	case v := <-got:
		w.T.Log(Ev{"e": "lpanic", "completed": true, "a": int(v.a), "b": int(v.b)})
	case <-time.After(500 * time.Millisecond):
		w.T.Log(Ev{"e": "lpanic", "completed": false, "a": 0, "b": 0})
	}
	return w.T.Finish()
}
