package h

import (
	"bytes"
	"fmt"
	"hash/fnv"
	"math/rand"
	"runtime/debug"
	"sort"
	"strings"
	"time"

	"github.com/kelindar/column"
	"github.com/kelindar/column/commit"
)

// digestLogger computes, inside the restoring collection's logger, a digest of every commit's decoded
// operations (column names, kinds, offsets, value bytes of the committed block).
type digestLogger struct {
	items []string
}

func (d *digestLogger) Append(cm commit.Commit) error {
	h := fnv.New64a()
	fmt.Fprintf(h, "chunk=%d;", cm.Chunk)
	r := commit.NewReader()
	ups := append([]*commit.Buffer{}, cm.Updates...)
	sort.Slice(ups, func(i, j int) bool { return ups[i].Column < ups[j].Column })
	for _, u := range ups {
		n := 0
		r.Range(u, cm.Chunk, func(r *commit.Reader) {
			for r.Next() {
				if r.Type == commit.Skip {
					continue
				}
				if n == 0 {
					fmt.Fprintf(h, "col=%s;", u.Column)
				}
				n++
				fmt.Fprintf(h, "%d@%d:", r.Type, r.Index())
				h.Write(r.Bytes())
			}
		})
	}
	d.items = append(d.items, fmt.Sprintf("%x", h.Sum64()))
	return nil
}

// RunTruncBig: two full blocks of rows with 70-byte strings (a snapshot of several MB spanning several
// compression frames), commits recorded beside the snapshot, restored from many prefixes.
func RunTruncBig(seed int64, all bool) (out []Ev) {
	rnd := rand.New(rand.NewSource(seed))
	w := NewWorld()
	defer func() {
		if r := recover(); r != nil {
			w.T.Log(Ev{"e": "panic", "t": "m", "what": fmt.Sprint(r), "stack": string(debug.Stack())})
			out = w.T.Finish()
		}
	}()
	mk := func(lg commit.Logger) *column.Collection {
		c := column.NewCollection(column.Options{Capacity: 1024, Writer: lg, Vacuum: time.Hour})
		c.CreateColumn("age", column.ForInt16())
		c.CreateColumn("score", column.ForFloat64())
		c.CreateColumn("name", column.ForEnum())
		// (note stays the LAST column: a block of the snapshot then ends with its one large write, which the compressor flushes
		// as a frame of its own - a cut at that frame boundary is a clean end of input exactly between two blocks)
		c.CreateColumn("memo", column.ForString())
		c.CreateColumn("note", column.ForString())
		return c
	}
	src := &digestLogger{} // the source's own commits, digested the same way
	P := mk(src)
	defer P.Close()
	rows := 2*16384 - rnd.Intn(50)
	// the string payload of one block is about 1.2 MB or (every other seed) about 2.7 MB: in the second case the
	// compressed stream is certain to have a frame that ends exactly where a block ends (large single writes are
	// flushed as frames of their own), so that a cut there leaves a well-formed stream announcing more blocks
	noteLen := 60
	if seed%2 == 0 {
		noteLen = 150
	}
	P.Query(func(txn *column.Txn) error {
		for i := 0; i < rows; i++ {
			txn.Insert(func(r column.Row) error {
				r.SetInt16("age", int16(i%90))
				r.SetFloat64("score", float64(i)*1.5)
				r.SetEnum("name", fmt.Sprintf("n%d", i%7))
				b := make([]byte, noteLen+rnd.Intn(20))
				for j := range b {
					b[j] = byte('a' + rnd.Intn(26))
				}
				r.SetString("note", string(b))
				return nil
			})
		}
		return nil
	})
	tail := rnd.Intn(4)
	// every other big scenario also records ONE HUGE commit: two string buffers of more than 2 MB each for block 0 (then a
	// small one), so that compression frames end between the update buffers of a commit - a cut there is a clean end of
	// input in the middle of a commit
	huge := seed%4 == 0
	column.VerifYield = func(point string, txn *column.Txn, chunk uint32) {
		if point == "snap.closing" {
			for i := 0; i < tail; i++ {
				P.QueryAt(uint32(rnd.Intn(rows)), func(r column.Row) error { r.SetString("note", fmt.Sprintf("tail-%d", i)); return nil })
			}
			if huge {
				P.Query(func(txn *column.Txn) error {
					note, memo, age := txn.String("note"), txn.String("memo"), txn.Int16("age")
					n := 0
					return txn.Range(func(idx uint32) {
						if idx < 16384 {
							note.Set(strings.Repeat(string(rune('a'+n%26)), 150))
							memo.Set(strings.Repeat(string(rune('A'+n%26)), 150))
							age.Set(int16(n % 50))
							n++
						}
					})
				})
				P.QueryAt(5, func(r column.Row) error { r.SetString("note", "after-huge"); return nil })
				// and a second one whose LAST update buffer is a large one (the small column is written first): a clean
				// end of input inside the final payload of a commit leaves nothing behind it that could still fail
				P.Query(func(txn *column.Txn) error {
					age := txn.Int16("age") // (the accessor's creation takes the column's place in the commit)
					note, memo := txn.String("note"), txn.String("memo")
					n := 0
					return txn.Range(func(idx uint32) {
						if idx < 16384 {
							age.Set(int16(n % 40))
							note.Set(strings.Repeat(string(rune('b'+n%25)), 140))
							memo.Set(strings.Repeat(string(rune('B'+n%25)), 160))
							n++
						}
					})
				})
				P.QueryAt(6, func(r column.Row) error { r.SetString("note", "after-huge-2"); return nil })
			}
		}
	}
	var buf bytes.Buffer
	before := len(src.items)
	err := P.Snapshot(&buf)
	column.VerifYield = nil
	rec := append([]string{}, src.items[before:]...) // every commit between the snapshot's start and its end
	if err != nil {
		w.T.Log(Ev{"e": "unsupported", "what": "snapshot: " + err.Error()})
		return w.T.Finish()
	}
	blob := buf.Bytes()
	// the reference: what restoring the intact file applies
	ref := &digestLogger{}
	S := mk(ref)
	if err := S.Restore(bytes.NewReader(blob)); err != nil {
		w.T.Log(Ev{"e": "unsupported", "what": "reference restore: " + err.Error()})
		return w.T.Finish()
	}
	S.Close()
	w.T.Log(Ev{"e": "pref", "items": ref.items, "nb": 2, "rec": rec, "bytes": len(blob), "frames": len(frameBoundaries(blob))})
	cuts := map[int]bool{0: true, len(blob): true, len(blob) - 1: true}
	for _, f := range frameBoundaries(blob) {
		for d := -2; d <= 2; d++ {
			if f+d >= 0 && f+d <= len(blob) {
				cuts[f+d] = true
			}
		}
	}
	n := 40
	if all {
		n = 400
	}
	for i := 0; i < n; i++ {
		cuts[rnd.Intn(len(blob)+1)] = true
	}
	var list []int
	for c := range cuts {
		list = append(list, c)
	}
	sort.Ints(list)
	for _, cut := range list {
		lg := &digestLogger{}
		T := mk(lg)
		w.T.Log(Ev{"e": "pbegin", "cut": cut})
		done := make(chan error, 1)
		go func() {
			defer func() {
				if r := recover(); r != nil {
					done <- fmt.Errorf("panic: %v", r)
					w.T.Log(Ev{"e": "panic", "t": "rs", "what": fmt.Sprint(r)})
				}
			}()
			done <- T.Restore(bytes.NewReader(blob[:cut]))
		}()
		select {
		case err := <-done:
			for _, it := range lg.items {
				w.T.Log(Ev{"e": "pitem", "digest": it})
			}
			w.T.Log(Ev{"e": "pend", "cut": cut, "err": err != nil})
		case <-time.After(20 * time.Second):
			w.T.Log(Ev{"e": "hang", "t": "rs", "after": fmt.Sprintf("restore of the first %d bytes", cut)})
		}
		T.Close()
	}
	return w.T.Finish()
}
