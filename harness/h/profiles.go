package h

import (
	"fmt"
	"math/rand"
)

// SeqProfileFor builds the profile variant for a scenario seed: schema, capacity, prologue and
// transport rotate so that a batch of scenarios covers the configuration space.
func SeqProfileFor(name string, seed int64) SeqProfile {
	r := rand.New(rand.NewSource(seed ^ 0x5eed))
	caps := []int{1, 63, 64, 1024, 16384, 20000}
	prol := []string{"", "", "block1", "sparse", "three"}
	p := SeqProfile{
		Name: name, Capacity: caps[r.Intn(len(caps))], Transport: []string{"chan", "log"}[r.Intn(2)],
		Prologue: prol[r.Intn(len(prol))], Steps: 25, MaxBody: 3,
		PInsert: 0.35, PDelete: 0.15, PRollback: 0.1, PFailIns: 0.1, PSchema: 0.1, PDelAll: 0.04, PBulkDel: 0.06,
	}
	numRepr := func() string { return NumericReprs[r.Intn(len(NumericReprs))] }
	switch name {
	case "c01": // value fidelity: every kind and repr, late columns, all capacities, several blocks
		p.PDropCol = 0.6
		p.Cols = []ColDesc{
			{"a", "int", "add", numRepr()},
			{"t", "tok", "", numRepr()},
			{"s", "str", []string{"", "concat"}[r.Intn(2)], "string"},
			{"b", "bool", "", "bool"},
			{"e", "enum", "", "enum"},
		}
		p.Late = []ColDesc{
			{"x", "tok", "", []string{"string", "recordvar", "float64", "float32"}[r.Intn(4)]},
			{"y", "int", []string{"add", "affine", "replace"}[r.Intn(3)], []string{"record", "int64", "uint32", "float64"}[r.Intn(4)]},
		}
		p.PRollback, p.PFailIns = 0, 0
		p.Collide = r.Intn(8) == 0
	case "c01w": // wide rows: a transaction writes many columns (buffers, pool pages and registry entries beyond the first few)
		for i := 0; i < 18; i++ {
			p.Cols = append(p.Cols, ColDesc{fmt.Sprintf("n%02d", i), "int", []string{"add", "", "sat"}[i%3], NumericReprs[i%len(NumericReprs)]})
		}
		p.Cols = append(p.Cols, ColDesc{"s", "str", "concat", "string"}, ColDesc{"b", "bool", "", "bool"}, ColDesc{"e", "enum", "", "enum"})
		p.Idx = []IdxDesc{{"big", "n00", "ge", 5}, {"big17", "n17", "ge", 5}}
		p.IdxFirst = true
		p.Wide = true
		p.Steps = 16
		p.PRollback, p.PFailIns = 0.15, 0.05
		p.Prologue = []string{"", "block1"}[r.Intn(2)]
	case "c02": // atomicity: rollbacks, failing inserts, an observer looking in mid-transaction, nothing emitted on rollback
		p.Cols = []ColDesc{{"a", "int", "add", numRepr()}, {"s", "str", "concat", "string"}, {"b", "bool", "", "bool"}}
		// (computed columns over the merged string too: "every change it buffered" includes what is derived from the final value)
		p.Idx = []IdxDesc{{"big", "a", "ge", 5}, {"on", "b", "true", 0}, {"sa", "s", "eq", []int{0}}}
		p.Trigs = [][2]string{{"ta", "a"}, {"ts", "s"}}
		p.Sorts = [][2]string{{"byS", "s"}}
		p.SortFirst = r.Intn(2) == 0
		p.PRollback, p.PFailIns, p.PObserve = 0.35, 0.3, 0.3
		p.Replica = true
	case "c03": // indexes: several per column, created and dropped at any point, on primary and replica
		p.PDropCol = 0.6
		p.Cols = []ColDesc{{"a", "int", []string{"add", "affine"}[r.Intn(2)], []string{"int", "int32", "int64", "uint64", "float64", "record"}[r.Intn(6)]},
			{"s", "str", []string{"", "concat"}[r.Intn(2)], "string"}, {"b", "bool", "", "bool"}, {"e", "enum", "", "enum"}}
		p.Idx = []IdxDesc{{"big", "a", "ge", 5}, {"small", "a", "lt", 3}, {"sa", "s", "eq", []int{0}}, {"on", "b", "true", 0}, {"e1", "e", "eq", "e1"}}
		p.PSchema = 0.3
		p.PSchemaIn = 0.12
		p.PIdxStep = 0.5
		p.IdxFirst = r.Intn(2) == 0 // several indexes per column from the start: dropping one must leave the others attached
		p.PRollback, p.PFailIns = 0.05, 0
		p.Replica = true
	case "c11": // offsets: many inserts and deletes over fragmented fill, failing inserts, rollbacks
		p.Cols = []ColDesc{{"a", "int", "add", numRepr()}, {"t", "tok", "", "string"}, {"b", "bool", "", "bool"}}
		// computed columns too must forget the previous occupant of an offset (the re-inserting row often leaves the column unset)
		p.Idx = []IdxDesc{{"big", "a", "ge", 5}, {"on", "b", "true", 0}}
		p.IdxFirst = true
		p.PInsert, p.PDelete, p.PFailIns, p.PRollback = 0.5, 0.3, 0.15, 0.15
		p.Prologue = []string{"", "block1", "sparse", "sparse", "three"}[r.Intn(5)]
		p.Steps = 30
		p.MaxBody = 6 // deletes and inserts alternating between blocks inside one transaction: several marker sections per block
	case "c15": // stream: multi-block transactions, read-only and rolled-back transactions, both transports
		p.Cols = []ColDesc{{"a", "int", "add", numRepr()}, {"s", "str", "", "string"}}
		p.Prologue = []string{"block1", "three", "three"}[r.Intn(3)] // (three blocks: transactions whose blocks are not contiguous)
		p.PRollback, p.PFailIns = 0.2, 0.1
		p.MaxBody = 5
		p.Replica = r.Intn(2) == 0
	case "c16": // sorted index: small alphabet forcing duplicates, created before or after the data
		p.PDropCol = 0.6
		p.Cols = []ColDesc{{"s", "str", []string{"", "concat"}[r.Intn(2)], "string"}, {"a", "int", "add", "int"}}
		p.Sorts = [][2]string{{"byS", "s"}}
		p.SortFirst = r.Intn(2) == 0
		p.PSchema = 0.1
		p.SortAt = 8 + r.Intn(14)
		if r.Intn(2) == 0 {
			p.Many = 16 + r.Intn(10) // an index of some size: a selection of one or two rows is narrow beside it
		}
		p.PBulkDel = 0.15 // Count well below the highest offset's block when the index is created late
		p.Prologue = []string{"", "block1", "block1", "sparse", "three"}[r.Intn(5)]
		p.PRollback, p.PFailIns = 0.05, 0
	case "c19": // triggers: puts, merges, deletes, rollbacks; created and dropped mid-history
		p.PDropCol = 0.6
		p.Cols = []ColDesc{{"a", "int", []string{"add", "affine", "replace", "sat"}[r.Intn(4)], numRepr()}, {"s", "str", []string{"", "concat"}[r.Intn(2)], "string"}}
		p.Cols = append(p.Cols, ColDesc{"b", "bool", "", "bool"}) // (true / false stores of a bool column are operation types, not values)
		p.Trigs = [][2]string{{"ta", "a"}, {"ts", "s"}, {"ta2", "a"}, {"tb", "b"}}
		p.PSchema = 0.2
		p.PRollback, p.PFailIns = 0.2, 0.1
		// long bodies over rows on both sides of a block boundary: a column's buffer then holds several sections per block
		// (block A, block B, block A again), each of which must reach the triggers exactly once
		p.MaxBody = 7
		p.Prologue = []string{"", "block1", "block1", "three"}[r.Intn(4)]
		p.OneShot = r.Intn(2) == 0 // triggers that drop themselves from inside a commit, ahead of the recorded ones
	case "c07": // snapshot -> restore -> continue cycles over all kinds, indexes, sorted index, several blocks
		p.PDropCol = 0.6
		p.Cols = []ColDesc{{"a", "int", "add", numRepr()}, {"s", "str", []string{"", "concat"}[r.Intn(2)], "string"}, {"b", "bool", "", "bool"},
			{"e", "enum", "", "enum"}, {"t", "tok", "", numRepr()}, {"y", "int", "add", "record"}, {"expire", "tok", "", "int64"}}
		p.Idx = []IdxDesc{{"big", "a", "ge", 5}, {"on", "b", "true", 0}, {"e1", "e", "eq", "e1"}}
		p.Sorts = [][2]string{{"byS", "s"}}
		p.SortFirst = true
		p.PSnap = 0.12
		p.Steps = 30
		p.PRollback, p.PFailIns = 0.05, 0.05
	case "c07k": // the same with a key column
		p.Cols = []ColDesc{{"k", "key", "", "key"}, {"a", "int", "add", numRepr()}}
		p.Keyed = true
		p.Prologue = []string{"", "block1"}[r.Intn(2)]
		p.PInsert, p.PDelete = 0.4, 0.2
		p.PSnap = 0.12
		p.Steps = 30
	case "c02k": // atomicity of key operations: rollbacks and failing callbacks around InsertKey / UpsertKey / QueryKey / DeleteKey, also through the one-call shortcuts
		p.Cols = []ColDesc{{"k", "key", "", "key"}, {"a", "int", "add", numRepr()}, {"s", "str", "concat", "string"}}
		p.Keyed = true
		p.Idx = []IdxDesc{{"big", "a", "ge", 5}}
		p.IdxFirst = true
		p.PInsert, p.PDelete, p.PRollback, p.PFailIns, p.PObserve = 0.4, 0.2, 0.35, 0.2, 0.2
		p.MaxBody = 3
	case "c12": // primary keys over a small alphabet: several key operations per transaction, rollbacks, re-keying
		p.Cols = []ColDesc{{"k", "key", "", "key"}, {"a", "int", "add", numRepr()}}
		p.Keyed = true
		p.Idx = []IdxDesc{{"big", "a", "ge", 5}}
		p.PInsert, p.PDelete, p.PRollback, p.PFailIns = 0.4, 0.2, 0.15, 0.1
		p.Prologue = []string{"", "", "block1"}[r.Intn(3)]
		p.Replica = r.Intn(2) == 0
		p.MaxBody = 4
		if !p.Replica {
			p.PSnap = 0.08
		} // the key table of a restored collection (what the snapshot of a key column carries after deletes)
	case "c06": // replica convergence, sequential histories over all kinds
		p.Cols = []ColDesc{{"a", "int", []string{"add", "affine"}[r.Intn(2)], numRepr()}, {"s", "str", []string{"", "concat"}[r.Intn(2)], "string"},
			{"b", "bool", "", "bool"}, {"e", "enum", "", "enum"}, {"t", "tok", "", numRepr()}, {"expire", "tok", "", "int64"}}
		p.Idx = []IdxDesc{{"big", "a", "ge", 5}}
		p.Replica = true
		p.Chain = r.Intn(2) == 0
		p.Lag = []float64{0, 0.5, 0.85}[r.Intn(3)]
		p.PRollback, p.PFailIns = 0.1, 0.05
		p.Prologue = []string{"", "block1", "three"}[r.Intn(3)]
		p.MaxBody = 4
	}
	return p
}
