package h

import "math/rand"

// SeqProfileFor builds the profile variant for a scenario seed: schema, capacity, prologue and
// transport rotate so that a batch of scenarios covers the configuration space.
func SeqProfileFor(name string, seed int64) SeqProfile {
	r := rand.New(rand.NewSource(seed ^ 0x5eed))
	caps := []int{1, 63, 64, 1024, 16384, 20000}
	prol := []string{"", "", "block1", "sparse", "three"}
	p := SeqProfile{
		Name: name, Capacity: caps[r.Intn(len(caps))], Transport: []string{"chan", "log"}[r.Intn(2)],
		Prologue: prol[r.Intn(len(prol))], Steps: 25, MaxBody: 3,
		PInsert: 0.35, PDelete: 0.15, PRollback: 0.1, PFailIns: 0.1, PSchema: 0.1,
	}
	numRepr := func() string { return NumericReprs[r.Intn(len(NumericReprs))] }
	switch name {
	case "c01": // value fidelity: every kind and repr, late columns, all capacities, several blocks
		p.Cols = []ColDesc{
			{"a", "int", "add", numRepr()},
			{"t", "tok", "", numRepr()},
			{"s", "str", []string{"", "concat"}[r.Intn(2)], "string"},
			{"b", "bool", "", "bool"},
			{"e", "enum", "", "enum"},
		}
		p.Late = []ColDesc{
			{"x", "tok", "", []string{"string", "recordvar", "float64", "float32"}[r.Intn(4)]},
			{"y", "int", []string{"add", "affine", "replace"}[r.Intn(3)], []string{"record", "int64", "uint32", "float64"}[r.Intn(4)]},
		}
		p.PRollback, p.PFailIns = 0, 0
		p.Collide = r.Intn(8) == 0
	}
	return p
}
