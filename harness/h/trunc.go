package h

import (
	"bytes"
	"fmt"
	"math/rand"
	"os"
	"runtime/debug"
	"sort"
	"time"

	"github.com/kelindar/column/commit"
)

// TruncProfile parameterises the truncation family.
type TruncProfile struct {
	Name   string
	Blocks int
	Rows   int
	Tail   int  // commits made while the snapshot is between reading the state and detaching the recorder
	All    bool // every byte offset (else frame boundaries +-2 and a random sample)
	Sample int
}

func TruncProfileFor(name string, seed int64) TruncProfile {
	r := rand.New(rand.NewSource(seed ^ 0x7c))
	p := TruncProfile{Name: name, Blocks: 1 + r.Intn(2), Rows: 3 + r.Intn(5), Tail: r.Intn(4), Sample: 25}
	if name == "c13t" {
		p.All = true
	}
	return p
}

// frameBoundaries walks the snappy/s2 framing (1 byte type, 3 bytes little-endian length) and
// returns the offsets at which a chunk ends. The snapshot is two concatenated streams.
func frameBoundaries(b []byte) []int {
	var out []int
	for i := 0; i+4 <= len(b); {
		n := int(b[i+1]) | int(b[i+2])<<8 | int(b[i+3])<<16
		i += 4 + n
		if i <= len(b) {
			out = append(out, i)
		}
	}
	return out
}

func cutPoints(blob []byte, p TruncProfile, rnd *rand.Rand) []int {
	set := map[int]bool{}
	if p.All {
		for i := 0; i <= len(blob); i++ {
			set[i] = true
		}
	} else {
		set[0], set[1], set[len(blob)-1], set[len(blob)] = true, true, true, true
		for _, f := range frameBoundaries(blob) {
			for d := -2; d <= 2; d++ {
				if f+d >= 0 && f+d <= len(blob) {
					set[f+d] = true
				}
			}
		}
		for i := 0; i < p.Sample; i++ {
			set[rnd.Intn(len(blob)+1)] = true
		}
	}
	var out []int
	for c := range set {
		out = append(out, c)
	}
	sort.Ints(out)
	return out
}

// RunTrunc: a snapshot (with commits recorded beside it) restored from every chosen prefix, and
// the primary's commit log file ranged over from every chosen prefix.
func RunTrunc(seed int64, p TruncProfile) (out []Ev) {
	rnd := rand.New(rand.NewSource(seed))
	w := NewWorld()
	defer w.Close()
	defer func() {
		if r := recover(); r != nil {
			w.T.Log(Ev{"e": "panic", "t": "m", "what": fmt.Sprint(r), "stack": string(debug.Stack())})
			out = w.T.Finish()
		}
	}()
	InstallSeqHook(w)
	defer UninstallHook()
	P := w.NewColl("P", 1024, "log", 0)
	for _, d := range []ColDesc{{"a", "int", "add", "int64"}, {"s", "str", "concat", "string"}, {"b", "bool", "", "bool"}} {
		P.CreateColumn(d)
	}
	P.CreateIndex(IdxDesc{"big", "a", "ge", 5})
	if p.Blocks == 2 {
		P.BulkInsert(16384 - 2)
	}
	var rows []uint32
	write := func(x *Tx) {
		if len(rows) > 0 && rnd.Intn(3) > 0 {
			o := rows[rnd.Intn(len(rows))]
			x.At(o, []W{{"a", []string{"put", "mrg"}[rnd.Intn(2)], 1 + rnd.Intn(5)}, {"s", "mrg", []int{rnd.Intn(3)}}}, false, 0)
			return
		}
		o, _ := x.Insert([]W{{"a", "put", rnd.Intn(10)}, {"s", "put", []int{rnd.Intn(3), rnd.Intn(3)}}, {"b", "put", rnd.Intn(2) == 0}}, false)
		rows = append(rows, o)
	}
	for i := 0; i < p.Rows; i++ {
		P.Txn("m", func(x *Tx) error { write(x); return nil })
	}
	P.Dump(1)
	// commits while the snapshot is between its last block and detaching the recorder land in the log tail
	prev := verifHook()
	setVerifHook(func(point string, chunk uint32) {
		prev(point, chunk)
		if point == "snap.closing" {
			for i := 0; i < p.Tail; i++ {
				w.T.SetCur("w")
				P.Txn("w", func(x *Tx) error { write(x); return nil })
				w.T.SetCur("m")
			}
		}
	})
	err := P.Snapshot("m", "f", nil)
	setVerifHook(prev)
	if err != nil {
		return w.T.Finish()
	}
	P.Dump(1)
	blob := w.Blobs["f"]
	w.T.Log(Ev{"e": "logend", "what": "snapshot", "bytes": len(blob), "frames": frameBoundaries(blob)})
	restoreCut := func(cut int) {
		S := P.FreshLike("S", 64)
		done := make(chan error, 1)
		go func() { w.T.Register("rs"); defer w.T.Unregister(); done <- S.Restore("rs", "f", cut) }()
		select {
		case err := <-done:
			if err == nil {
				S.Dump(0)
			}
		case <-time.After(10 * time.Second):
			w.T.Log(Ev{"e": "hang", "t": "rs", "after": fmt.Sprintf("restore of the first %d bytes", cut)})
		}
	}
	for _, cut := range cutPoints(blob, p, rnd) {
		restoreCut(cut)
	}
	// the commit log file alone: every chosen prefix, replayed on a fresh replica
	raw, err := os.ReadFile(P.Log.fileName)
	if err != nil {
		return w.T.Finish()
	}
	w.T.Log(Ev{"e": "logend", "what": "commit log", "bytes": len(raw), "frames": frameBoundaries(raw)})
	for _, cut := range cutPoints(raw, p, rnd) {
		R := P.FreshLike("R", 64)
		n := 0
		stored := P.Log.Stored()
		err := commit.Open(bytes.NewReader(raw[:cut])).Range(func(cm commit.Commit) error {
			if n < len(stored) && stored[n].Bulk {
				w.Bulk = true
				R.C.Replay(cm)
				w.Bulk = false
				if ids := R.Log.TakeBulkIds(); len(ids) == 1 {
					w.T.Log(Ev{"e": "bulkreplay", "c": "R", "src": "P", "i": n + 1, "id": ids[0]})
				} else {
					w.T.Log(Ev{"e": "unsupported", "what": "bulk replay"})
				}
			} else {
				w.T.SetCur("r")
				w.T.Log(Ev{"e": "replay", "t": "r", "c": "R", "src": "P", "i": n + 1})
				R.C.Replay(cm)
				w.T.SetCur("m")
			}
			n++
			return nil
		})
		w.T.Log(Ev{"e": "logend", "what": "range", "cut": cut, "delivered": n, "err": err != nil})
		R.Dump(0)
	}
	return w.T.Finish()
}
