package h

import (
	"errors"
	"fmt"
	"io"
	"math/rand"
	"os"
	"path/filepath"
	"runtime"
	"runtime/debug"
	"time"
)

var ErrInjected = errors.New("harness: injected write failure")

// FaultyWriter fails at the AtCall-th Write call (0-based) or once Budget bytes have been accepted
// (a negative value disables the criterion). Once: only that one call fails.
type FaultyWriter struct {
	W      io.Writer
	AtCall int
	Budget int
	Once   bool
	Calls  int
	Bytes  int
	failed bool
}

func (f *FaultyWriter) Write(p []byte) (int, error) {
	call := f.Calls
	f.Calls++
	if f.failed && !f.Once {
		return 0, ErrInjected
	}
	if f.AtCall >= 0 && call == f.AtCall {
		f.failed = true
		return 0, ErrInjected
	}
	if f.Budget >= 0 && f.Bytes+len(p) > f.Budget && !(f.failed && f.Once) {
		n := f.Budget - f.Bytes
		if n < 0 {
			n = 0
		}
		f.failed = true
		f.Bytes += n
		return n, ErrInjected
	}
	f.Bytes += len(p)
	if f.W != nil {
		return f.W.Write(p)
	}
	return len(p), nil
}

// Probe counts what only really leaked resources keep alive: open descriptors after two forced
// garbage collections (finalizers close unreachable files) and recorder files in the temp dir.
func (w *World) Probe(t string) {
	for i := 0; i < 2; i++ {
		runtime.GC()
		time.Sleep(2 * time.Millisecond)
	}
	fds, _ := os.ReadDir("/proc/self/fd")
	tmp, _ := filepath.Glob(filepath.Join(os.TempDir(), "column_*.log"))
	own := 0 // descriptors of the harness's own stream files
	for _, c := range w.Colls {
		if c.Log.file != nil {
			own++
		}
	}
	w.T.Log(Ev{"e": "res", "t": t, "fds": len(fds) - 1 - own, "tmp": len(tmp)})
}

// Drop forgets a collection so that its name can be used for a fresh one.
func (w *World) Drop(name string) {
	if c, ok := w.Colls[name]; ok {
		c.C.Close()
		c.Log.Close()
		delete(w.Colls, name)
		w.T.Log(Ev{"e": "drop", "c": name})
	}
}

// FreshLike creates (after dropping it) collection name with the schema of c.
func (c *Coll) FreshLike(name string, capacity int) *Coll {
	w := c.W
	w.Drop(name)
	S := w.NewColl(name, capacity, "log", 0)
	S.Keys = c.Keys
	for _, d := range c.Cols {
		S.CreateColumn(d)
	}
	for _, x := range c.Idx {
		S.CreateIndex(x)
	}
	return S
}

// FaultProfile parameterises the failed-snapshot family.
type FaultProfile struct {
	Name    string
	Blocks  int // 0: empty collection, 1: one block, 2: two blocks
	Rows    int
	Budgets int  // number of byte budgets tried (0: all)
	Repeat  int  // extra failing attempts at random positions (leak drift)
	Tail    int  // commits made while each snapshot is between its last block and detaching the recorder
	Big     bool // three blocks holding 1.5 MB each (24 rows with a 64 KB string): the compressing writer flushes to the
	// destination while blocks are still being written, so a failing destination surfaces INSIDE a block, not at the final flush
}

func FaultProfileFor(name string, seed int64) FaultProfile {
	r := rand.New(rand.NewSource(seed ^ 0xfa17))
	p := FaultProfile{Name: name, Blocks: r.Intn(3), Rows: 3 + r.Intn(4), Budgets: 12, Repeat: 20, Tail: r.Intn(3)}
	if name == "c14t" {
		p.Budgets, p.Repeat = 0, 300
	}
	if name == "c14big" {
		p.Big, p.Blocks, p.Budgets, p.Repeat, p.Tail = true, 3, 10, 6, r.Intn(2)
	}
	return p
}

// RunFault: every write-call index and a set of byte budgets at which the destination starts
// failing (fail-forever and fail-once), each followed by a commit, a healthy snapshot, a restore and
// a resource probe.
func RunFault(seed int64, p FaultProfile) (out []Ev) {
	rnd := rand.New(rand.NewSource(seed))
	w := NewWorld()
	defer w.Close()
	defer func() {
		if r := recover(); r != nil {
			w.T.Log(Ev{"e": "panic", "t": "m", "what": fmt.Sprint(r), "stack": string(debug.Stack())})
			out = w.T.Finish()
		}
	}()
	InstallSeqHook(w)
	defer UninstallHook()
	P := w.NewColl("P", 1024, "log", 0)
	cols := []ColDesc{{"a", "int", "add", "int64"}, {"s", "str", "", "string"}}
	for _, d := range cols {
		P.CreateColumn(d)
	}
	P.CreateIndex(IdxDesc{"big", "a", "ge", 5})
	var perBlock [][]uint32 // big: the tracked rows of each block
	if p.Big {
		big := ColDesc{"x", "tok", "", "string"}
		P.CreateColumn(big)
		P.BulkInsert(3 * 16384) // completely full: tracked rows take the offsets freed just before
		for b := 0; b < 3; b++ {
			lo := uint32(b)*16384 + 100
			P.BulkDelete(lo, lo+23)
			var rows []uint32
			for i := 0; i < 24; i++ {
				P.Txn("m", func(x *Tx) error {
					o, _ := x.Insert([]W{{"a", "put", rnd.Intn(10)}, {"x", "put", "len65535"}}, false)
					rows = append(rows, o)
					return nil
				})
			}
			perBlock = append(perBlock, rows)
		}
	}
	if p.Blocks == 2 {
		P.BulkInsert(16384 - 2)
	}
	if p.Blocks > 0 && !p.Big {
		for i := 0; i < p.Rows; i++ {
			P.Txn("m", func(x *Tx) error {
				x.Insert([]W{{"a", "put", rnd.Intn(10)}, {"s", "put", []int{rnd.Intn(3)}}}, false)
				return nil
			})
		}
	}
	live := P.Dump(1)
	// commits made beside every snapshot (from inside its snap.closing point): they are recorded and copied
	// behind the state, so that the copy phase writes to the destination too
	base := verifHook()
	tailing := false
	setVerifHook(func(point string, chunk uint32) {
		base(point, chunk)
		if point == "snap.closing" && !tailing {
			tailing = true
			for i := 0; i < p.Tail; i++ {
				w.T.SetCur("w")
				P.Txn("w", func(x *Tx) error { x.Insert([]W{{"a", "put", i}}, false); return nil })
				w.T.SetCur("m")
			}
			tailing = false
		}
	})
	// a healthy warm-up snapshot through a counting writer: how many calls and bytes there are
	count := &FaultyWriter{AtCall: -1, Budget: -1}
	if P.Snapshot("m", "warm", count) != nil {
		return w.T.Finish()
	}
	w.Probe("m") // baseline
	attempt := func(fw *FaultyWriter, i int) {
		err := P.Snapshot("m", fmt.Sprintf("bad%d", i), fw)
		_ = err
		if p.Big {
			// every block still takes commits (a latch left behind by the failed snapshot would block its block only)
			for _, rows := range perBlock {
				o := rows[rnd.Intn(len(rows))]
				done := make(chan struct{})
				go func() {
					w.T.Register("m")
					defer w.T.Unregister()
					P.Txn("m", func(x *Tx) error { x.At(o, []W{{"a", "mrg", 1}}, false, 0); return nil })
					close(done)
				}()
				select {
				case <-done:
				case <-time.After(20 * time.Second):
					w.T.Log(Ev{"e": "hang", "t": "m", "after": fmt.Sprintf("a commit to block %d after a failed snapshot", o>>14)})
					panic("harness: giving up after a hang")
				}
			}
		}
		// the collection keeps working: a commit, a healthy snapshot that restores correctly
		P.Txn("m", func(x *Tx) error {
			if len(live) > 0 && rnd.Intn(2) == 0 {
				o := live[rnd.Intn(len(live))]
				if w.IsTracked(o) {
					x.At(o, []W{{"a", "mrg", 1}}, false, 0)
					return nil
				}
			}
			x.Insert([]W{{"a", "put", rnd.Intn(10)}}, false)
			return nil
		})
		live = P.Dump(1)
		if i%4 == 0 {
			if P.Snapshot("m", "good", nil) == nil {
				S := P.FreshLike("S", 64)
				S.Restore("rs", "good", -1)
				S.Dump(0)
			}
			w.Probe("m")
		}
	}
	i := 0
	for k := 0; k <= count.Calls; k++ {
		attempt(&FaultyWriter{AtCall: k, Budget: -1}, i)
		i++
		attempt(&FaultyWriter{AtCall: k, Budget: -1, Once: true}, i)
		i++
	}
	budgets := []int{}
	if p.Budgets == 0 {
		for n := 0; n <= count.Bytes; n++ {
			budgets = append(budgets, n)
		}
	} else {
		budgets = append(budgets, 0, 1, count.Bytes-1, count.Bytes)
		for len(budgets) < p.Budgets {
			budgets = append(budgets, rnd.Intn(count.Bytes+1))
		}
	}
	for _, n := range budgets {
		attempt(&FaultyWriter{AtCall: -1, Budget: n}, i)
		i++
	}
	// two snapshots at once: the second one starts while the first is between its protocol points
	nested := false
	prev := verifHook()
	setVerifHook(func(point string, chunk uint32) {
		prev(point, chunk)
		if point == "snap.opened" && !nested {
			nested = true
			w.T.SetCur("n")
			P.Snapshot("n", "loser", nil)
			w.T.SetCur("m")
		}
	})
	P.Snapshot("m", "winner", nil)
	setVerifHook(prev)
	w.Probe("m")
	for j := 0; j < p.Repeat; j++ {
		fw := &FaultyWriter{AtCall: -1, Budget: -1}
		if rnd.Intn(2) == 0 {
			fw.AtCall = rnd.Intn(count.Calls + 1)
		} else {
			fw.Budget = rnd.Intn(count.Bytes + 1)
		}
		P.Snapshot("m", "drift", fw)
	}
	attempt(&FaultyWriter{AtCall: 0, Budget: -1}, 0)
	w.Probe("m")
	return w.T.Finish()
}
