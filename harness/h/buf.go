package h

import (
	"bytes"
	"encoding/binary"
	"encoding/json"
	"fmt"
	"hash/fnv"
	"math/rand"
	"os"
	"runtime"
	"runtime/debug"
	"sort"

	"github.com/kelindar/column/commit"
)

// BStep is one generated write: kind, value width class, offset move (spec/GenBuffer.tla).
type BStep struct {
	K string `json:"k"`
	W string `json:"w"`
	M string `json:"m"`
}

func LoadSteps(path string) ([][]BStep, error) {
	b, err := os.ReadFile(path)
	if err != nil {
		return nil, err
	}
	var out [][]BStep
	return out, json.Unmarshal(b, &out)
}

// token names a value by its exact bytes.
func token(b []byte) string {
	if len(b) <= 8 {
		return fmt.Sprintf("x%x", b)
	}
	h := fnv.New64a()
	h.Write(b)
	return fmt.Sprintf("L%d-%x", len(b), h.Sum64())
}

func widthBytes(w string, rnd *rand.Rand) []byte {
	switch w {
	case "w2":
		return binary.BigEndian.AppendUint16(nil, uint16(rnd.Intn(1<<16)))
	case "w4":
		return binary.BigEndian.AppendUint32(nil, rnd.Uint32())
	case "w8":
		return binary.BigEndian.AppendUint64(nil, rnd.Uint64())
	}
	n := 0
	fmt.Sscanf(w, "s%d", &n)
	b := make([]byte, n)
	for i := range b {
		b[i] = byte(rnd.Intn(256))
	}
	return b
}

func move(last int, m string) int {
	switch m {
	case "same":
		return last
	case "next":
		return last + 1
	case "small":
		return last + 5
	case "m128":
		return last + 200
	case "m16384":
		return last + 16384
	case "jump":
		return last + 3*16384 + 7
	case "back":
		if last >= 3 {
			return last - 3
		}
		return 0
	case "home":
		return 2
	}
	panic("move " + m)
}

type bufRun struct {
	w   *World
	rnd *rand.Rand
}

func readOps(r *commit.Reader) (out []Ev) {
	for r.Next() {
		k := ""
		switch r.Type {
		case commit.Skip:
			continue
		case commit.Delete:
			k = "del"
		case commit.Insert:
			k = "ins"
		case commit.Put:
			k = "put"
		case commit.Merge:
			k = "mrg"
		default:
			k = fmt.Sprintf("op%d", r.Type)
		}
		out = append(out, Ev{"k": k, "o": int(r.Index()), "v": token(r.Bytes())})
	}
	if out == nil {
		out = []Ev{}
	}
	return
}

func (b *bufRun) reads(via string, buf *commit.Buffer, blocks []int, whole bool) {
	r := commit.NewReader()
	if whole {
		r.Seek(buf)
		b.w.T.Log(Ev{"e": "bread", "via": via, "how": "all", "b": 0, "ops": readOps(r)})
	}
	for _, blk := range blocks {
		ops := []Ev{}
		r.Range(buf, commit.Chunk(blk), func(r *commit.Reader) { ops = append(ops, readOps(r)...) })
		b.w.T.Log(Ev{"e": "bread", "via": via, "how": "block", "b": blk, "ops": ops})
	}
}

// allReads reads the buffer back directly and after each serialization.
func (b *bufRun) allReads(buf *commit.Buffer, blocks []int) {
	var chunks []int
	buf.RangeChunks(func(c commit.Chunk) { chunks = append(chunks, int(c)) })
	if chunks == nil {
		chunks = []int{}
	}
	b.w.T.Log(Ev{"e": "bsecs", "chunks": chunks})
	b.reads("direct", buf, blocks, true)
	// Buffer.WriteTo / ReadFrom
	var bb bytes.Buffer
	if _, err := buf.WriteTo(&bb); err == nil {
		cp := commit.NewBuffer(16)
		if _, err := cp.ReadFrom(&bb); err == nil {
			b.reads("buffer-codec", cp, blocks, true)
		} else {
			b.w.T.Log(Ev{"e": "unsupported", "what": "Buffer.ReadFrom: " + err.Error()})
		}
	}
	// Commit.WriteTo / ReadFrom, one commit per block; and the same through a real log file
	f, err := os.CreateTemp("", "verif_buf_*.log")
	if err != nil {
		panic(err)
	}
	defer os.Remove(f.Name())
	lg := commit.Open(f)
	// (a transaction's commit for a block carries every buffer of the transaction - also those of columns it wrote in
	// other blocks only: commits for blocks this buffer has nothing for must read back as nothing)
	present := map[int]bool{}
	for _, blk := range blocks {
		present[blk] = true
	}
	blocks = append([]int{}, blocks...)
	for _, cand := range []int{0, 1, 3} {
		if !present[cand] && len(blocks) < 6 {
			blocks = append(blocks, cand)
		}
	}
	for i, blk := range blocks {
		cm := commit.Commit{ID: uint64(100 + i), Chunk: commit.Chunk(blk), Updates: []*commit.Buffer{buf}}
		var cb bytes.Buffer
		if _, err := cm.WriteTo(&cb); err != nil {
			b.w.T.Log(Ev{"e": "unsupported", "what": "Commit.WriteTo: " + err.Error()})
			continue
		}
		var back commit.Commit
		if _, err := back.ReadFrom(&cb); err != nil || len(back.Updates) != 1 || back.ID != cm.ID || back.Chunk != cm.Chunk {
			b.w.T.Log(Ev{"e": "unsupported", "what": fmt.Sprintf("Commit.ReadFrom: %v", err)})
			continue
		}
		b.reads("commit-codec", back.Updates[0], []int{blk}, false)
		lg.Append(cm)
	}
	f.Close()
	rf, err := os.Open(f.Name())
	if err == nil {
		i := 0
		commit.Open(rf).Range(func(cm commit.Commit) error {
			if i < len(blocks) && len(cm.Updates) == 1 && int(cm.Chunk) == blocks[i] && cm.ID == uint64(100+i) {
				b.reads("log", cm.Updates[0], []int{blocks[i]}, false)
			} else {
				b.w.T.Log(Ev{"e": "unsupported", "what": "Log.Range delivered an unexpected commit"})
			}
			i++
			return nil
		})
		if i != len(blocks) {
			b.w.T.Log(Ev{"e": "unsupported", "what": fmt.Sprintf("Log.Range delivered %d of %d commits", i, len(blocks))})
		}
		rf.Close()
	}
}

// one sequence: write, read back everywhere, rewrite the merges block by block, read back again
func (b *bufRun) sequence(steps []BStep) {
	w := b.w
	w.T.Log(Ev{"e": "bnew"})
	buf := commit.NewBuffer(64)
	buf.Reset("col")
	last := 0
	type wr struct {
		k     string
		o     int
		val   []byte
		isStr bool
	}
	var ws []wr
	blockSet := map[int]bool{}
	for _, s := range steps {
		o := move(last, s.M)
		last = o
		x := wr{k: s.K, o: o}
		switch s.K {
		case "del":
			buf.PutOperation(commit.Delete, uint32(o))
		case "ins":
			buf.PutOperation(commit.Insert, uint32(o))
		case "t":
			buf.PutBool(uint32(o), true)
			x.k = "put"
		case "f":
			buf.PutBool(uint32(o), false)
			x.k = "del"
		default:
			op := commit.Put
			if s.K == "mrg" {
				op = commit.Merge
			}
			x.val = widthBytes(s.W, b.rnd)
			switch s.W {
			case "w2":
				buf.PutUint16(op, uint32(o), binary.BigEndian.Uint16(x.val))
			case "w4":
				buf.PutUint32(op, uint32(o), binary.BigEndian.Uint32(x.val))
			case "w8":
				buf.PutUint64(op, uint32(o), binary.BigEndian.Uint64(x.val))
			default:
				x.isStr = true
				if b.rnd.Intn(2) == 0 {
					buf.PutBytes(op, uint32(o), x.val)
				} else {
					buf.PutString(op, uint32(o), string(x.val))
				}
			}
		}
		ws = append(ws, x)
		blockSet[o>>14] = true
		w.T.Log(Ev{"e": "bw", "k": x.k, "o": o, "v": token(x.val), "n": len(x.val)})
	}
	var blocks []int
	for blk := range blockSet {
		blocks = append(blocks, blk)
	}
	sort.Ints(blocks)
	b.allReads(buf, blocks)
	// rewrite every merge, block by block, the way a column's Apply does (Reader.Range + Swap*)
	any := false
	r := commit.NewReader()
	for _, blk := range blocks {
		var idxs []int // write-order indices of this block's operations
		for i, x := range ws {
			if x.o>>14 == blk {
				idxs = append(idxs, i)
			}
		}
		seen := 0
		r.Range(buf, commit.Chunk(blk), func(r *commit.Reader) {
			for r.Next() {
				if seen >= len(idxs) {
					return // operations appended by earlier rewrites
				}
				i := idxs[seen]
				seen++
				if r.Type != commit.Merge {
					continue
				}
				any = true
				x := ws[i]
				var nv []byte
				// the merged result usually differs from the delta; every fourth one is the delta itself, bit for bit
				// (a sum with an absent value, a maximum the delta wins): it is still a put of the result from here on
				add := uint64(10)
				if b.rnd.Intn(4) == 0 {
					add = 0
				}
				switch {
				case !x.isStr && len(x.val) == 2:
					nv = binary.BigEndian.AppendUint16(nil, binary.BigEndian.Uint16(x.val)+uint16(add))
					r.SwapUint16(binary.BigEndian.Uint16(nv))
				case !x.isStr && len(x.val) == 4:
					nv = binary.BigEndian.AppendUint32(nil, binary.BigEndian.Uint32(x.val)+uint32(add))
					r.SwapUint32(binary.BigEndian.Uint32(nv))
				case !x.isStr && len(x.val) == 8:
					nv = binary.BigEndian.AppendUint64(nil, binary.BigEndian.Uint64(x.val)+add)
					r.SwapUint64(binary.BigEndian.Uint64(nv))
				default:
					n := len(x.val)
					switch b.rnd.Intn(8) { // a result of the same or of another length: longer, shorter, empty
					case 0, 1:
						if n < 65535 {
							n++
						}
					case 2:
						if n > 0 {
							n--
						}
					case 3:
						n /= 2
					case 4:
						n = 0
					case 5:
						if n*2+3 <= 65535 {
							n = n*2 + 3
						}
					}
					nv = make([]byte, n)
					for j := range nv {
						nv[j] = byte(b.rnd.Intn(256))
					}
					if add == 0 {
						nv = append([]byte{}, x.val...)
					}
					r.SwapBytes(nv)
				}
				w.T.Log(Ev{"e": "bswap", "i": i + 1, "v": token(nv), "n": len(nv)})
			}
		})
	}
	if any {
		b.allReads(buf, blocks)
	}
}

// RunBuf replays generated (or random) write sequences into the real buffer machinery.
func RunBuf(seed int64, seqs [][]BStep) (out []Ev) {
	// commit.Open wraps its file in an s2.Writer, whose writer goroutine (started at once when GOMAXPROCS > 1) only
	// ends when the s2.Writer is closed - which commit.Log never does. A long run of this family opens hundreds of
	// thousands of logs: it runs on one P, where s2 starts no goroutine.
	defer runtime.GOMAXPROCS(runtime.GOMAXPROCS(1))
	w := NewWorld()
	b := &bufRun{w: w, rnd: rand.New(rand.NewSource(seed))}
	defer func() {
		if r := recover(); r != nil {
			w.T.Log(Ev{"e": "panic", "t": "m", "what": fmt.Sprint(r), "stack": string(debug.Stack())})
			out = w.T.Finish()
		}
	}()
	for _, s := range seqs {
		b.sequence(s)
	}
	return w.T.Finish()
}

// RandomSteps draws n long sequences.
func RandomSteps(seed int64, n, length int) [][]BStep {
	rnd := rand.New(rand.NewSource(seed))
	kinds := []string{"del", "ins", "put", "put", "mrg", "mrg", "t", "f"}
	widths := []string{"w2", "w4", "w8", "s0", "s1", "s127", "s128", "s255", "s256", "s65535", "s3", "s3"}
	moves := []string{"same", "next", "next", "small", "m128", "m16384", "jump", "back", "home"}
	var out [][]BStep
	for i := 0; i < n; i++ {
		var s []BStep
		for j := 0; j < 1+rnd.Intn(length); j++ {
			s = append(s, BStep{kinds[rnd.Intn(len(kinds))], widths[rnd.Intn(len(widths))], moves[rnd.Intn(len(moves))]})
		}
		out = append(out, s)
	}
	return out
}
