package h

import (
	"strings"
	"sync"

	"github.com/kelindar/column"
)

// keyMiss records, per actor, that the key-insert hook (key.checked) fired during the current key
// call: the library looked the key up, did not find it, and is about to insert.
var keyMiss sync.Map // actor -> *keyCall

type keyCall struct {
	fn, k  string
	missed bool
}

// KeyHook is called from the scheduling hook at key.checked, before anything else happens.
func (w *World) KeyHook() {
	a := w.T.Actor()
	if v, ok := keyMiss.Load(a); ok {
		kc := v.(*keyCall)
		kc.missed = true
		w.T.Log(Ev{"e": "kchk", "t": a, "fn": kc.fn, "k": kc.k, "found": false, "o": 0})
	}
}

func (x *Tx) keyStart(fn, k string) *keyCall {
	kc := &keyCall{fn: fn, k: k}
	keyMiss.Store(x.T, kc)
	return kc
}

func (x *Tx) keyEnd(err bool) {
	keyMiss.Delete(x.T)
	x.C.W.T.Log(Ev{"e": "kend", "t": x.T, "err": err})
}

func (x *Tx) keyColumn() ColDesc {
	for _, d := range x.C.Cols {
		if d.Kind == "key" {
			return d
		}
	}
	panic("no key column")
}

// InsertKey: fails iff the key exists.
func (x *Tx) InsertKey(k string, ws []W, fail bool) {
	c := x.C
	kc := x.keyStart("ins", k)
	var at uint32
	called := false
	err := x.Txn.InsertKey(KeyTokens[k], func(r column.Row) error {
		called = true
		at = r.Index()
		c.W.Track(at)
		c.W.T.Log(Ev{"e": "reserve", "t": x.T, "o": int(at)})
		for _, w := range ws {
			d, _ := c.Desc(w.Col)
			c.Write(x.T, r, d, w.K, w.V)
		}
		if fail {
			return ErrFail
		}
		return nil
	})
	switch {
	case !called && err != nil && !kc.missed:
		// "already exists at offset N"
		o := 0
		if i := strings.LastIndex(err.Error(), "offset "); i >= 0 {
			for _, ch := range err.Error()[i+7:] {
				if ch < '0' || ch > '9' {
					break
				}
				o = o*10 + int(ch-'0')
			}
		}
		c.W.Track(uint32(o))
		c.W.T.Log(Ev{"e": "kchk", "t": x.T, "fn": "ins", "k": k, "found": true, "o": o})
		x.keyEnd(true)
		return
	case called:
		if err != nil {
			c.W.T.Log(Ev{"e": "insfail", "t": x.T, "o": int(at)})
		}
		// the library buffers the key write after the callback, whether it failed or not
		c.W.T.Log(Ev{"e": "w", "t": x.T, "n": x.keyColumn().Name, "k": "put", "o": int(at), "v": k})
	}
	x.keyEnd(false)
}

// UpsertKey: updates the existing row or creates exactly one.
func (x *Tx) UpsertKey(k string, ws []W) {
	c := x.C
	kc := x.keyStart("ups", k)
	var at uint32
	x.Txn.UpsertKey(KeyTokens[k], func(r column.Row) error {
		at = r.Index()
		c.W.Track(at)
		if kc.missed {
			c.W.T.Log(Ev{"e": "reserve", "t": x.T, "o": int(at)})
		} else {
			c.W.T.Log(Ev{"e": "kchk", "t": x.T, "fn": "ups", "k": k, "found": true, "o": int(at)})
		}
		for _, w := range ws {
			d, _ := c.Desc(w.Col)
			c.Write(x.T, r, d, w.K, w.V)
		}
		return nil
	})
	if kc.missed {
		c.W.T.Log(Ev{"e": "w", "t": x.T, "n": x.keyColumn().Name, "k": "put", "o": int(at), "v": k})
	}
	x.keyEnd(false)
}

// QueryKey: fails iff the key is absent.
func (x *Tx) QueryKey(k string, ws []W, flavor int) {
	c := x.C
	x.keyStart("qry", k)
	called := false
	x.Txn.QueryKey(KeyTokens[k], func(r column.Row) error {
		called = true
		o := r.Index()
		c.W.Track(o)
		c.W.T.Log(Ev{"e": "kchk", "t": x.T, "fn": "qry", "k": k, "found": true, "o": int(o)})
		vals := Ev{}
		for _, d := range c.Cols {
			vals[d.Name] = c.ReadRow(x.Txn, r, d, flavor)
		}
		c.W.T.Log(Ev{"e": "read", "t": x.T, "o": int(o), "vals": vals})
		for _, w := range ws {
			d, _ := c.Desc(w.Col)
			c.Write(x.T, r, d, w.K, w.V)
		}
		return nil
	})
	if !called {
		c.W.T.Log(Ev{"e": "kchk", "t": x.T, "fn": "qry", "k": k, "found": false, "o": 0})
	}
	x.keyEnd(!called)
}

// DeleteKey: fails iff the key is absent.
func (x *Tx) DeleteKey(k string) {
	c := x.C
	x.keyStart("del", k)
	// where does the key point right now? (the same lookup DeleteKey makes; nothing runs in between)
	found, at := false, uint32(0)
	x.Txn.QueryKey(KeyTokens[k], func(r column.Row) error { found, at = true, r.Index(); return nil })
	err := x.Txn.DeleteKey(KeyTokens[k])
	if found {
		c.W.Track(at)
	}
	c.W.T.Log(Ev{"e": "kchk", "t": x.T, "fn": "del", "k": k, "found": err == nil, "o": int(at)})
	if err == nil {
		c.W.T.Log(Ev{"e": "kdel", "t": x.T, "o": int(at)})
	}
	x.keyEnd(err != nil)
}

// SetKey re-keys row o: refused iff the key exists.
func (x *Tx) SetKey(o uint32, k string) {
	c := x.C
	c.W.Track(o)
	x.keyStart("set", k)
	found, at := false, uint32(0)
	x.Txn.QueryKey(KeyTokens[k], func(r2 column.Row) error { found, at = true, r2.Index(); return nil })
	var err error
	x.Txn.QueryAt(o, func(r column.Row) error {
		err = x.Txn.Key().Set(KeyTokens[k])
		return nil
	})
	if found {
		c.W.Track(at)
	}
	c.W.T.Log(Ev{"e": "kchk", "t": x.T, "fn": "set", "k": k, "found": err != nil, "o": int(at)})
	if err == nil {
		c.W.T.Log(Ev{"e": "w", "t": x.T, "n": x.keyColumn().Name, "k": "put", "o": int(o), "v": k})
	}
	x.keyEnd(err != nil)
}

// ---- the same calls as one-call shortcuts of the collection (each wraps a whole transaction) ----
// What a transaction logs after its callback (the key write the library buffers after the callback, kend,
// commitstart) is logged at the end of the callback: nothing but that key write and the commit follows it.

func (c *Coll) keyName() string {
	for _, d := range c.Cols {
		if d.Kind == "key" {
			return d.Name
		}
	}
	panic("no key column")
}

func (c *Coll) shortKey(t, fn, k string, call func(kc *keyCall, body func(r column.Row, created bool) error) error, ws []W, fail, read bool, flavor int) {
	tr := c.W.T
	tr.Log(Ev{"e": "begin", "t": t, "c": c.Name})
	kc := &keyCall{fn: fn, k: k}
	keyMiss.Store(t, kc)
	called, createdRow, createdAt := false, false, uint32(0)
	err := call(kc, func(r column.Row, created bool) error {
		called = true
		at := r.Index()
		c.W.Track(at)
		createdRow, createdAt = created, at
		if created {
			tr.Log(Ev{"e": "reserve", "t": t, "o": int(at)})
		} else {
			tr.Log(Ev{"e": "kchk", "t": t, "fn": fn, "k": k, "found": true, "o": int(at)})
		}
		if read && flavor != 1 {
			vals := Ev{}
			for _, d := range c.Cols {
				vals[d.Name] = c.ReadRow(nil, r, d, flavor)
			}
			tr.Log(Ev{"e": "read", "t": t, "o": int(at), "vals": vals})
		}
		for _, w := range ws {
			d, _ := c.Desc(w.Col)
			c.Write(t, r, d, w.K, w.V)
		}
		if fail {
			return ErrFail
		}
		if created {
			tr.Log(Ev{"e": "w", "t": t, "n": c.keyName(), "k": "put", "o": int(at), "v": k})
		}
		tr.Log(Ev{"e": "kend", "t": t, "err": false})
		tr.Log(Ev{"e": "commitstart", "t": t})
		return nil
	})
	keyMiss.Delete(t)
	switch {
	case !called && err != nil:
		// refused before the callback: the key exists (insert) / is absent (query)
		if !kc.missed {
			o := 0
			if i := strings.LastIndex(err.Error(), "offset "); i >= 0 {
				for _, ch := range err.Error()[i+7:] {
					if ch < '0' || ch > '9' {
						break
					}
					o = o*10 + int(ch-'0')
				}
			}
			if fn == "ins" {
				c.W.Track(uint32(o))
			}
			tr.Log(Ev{"e": "kchk", "t": t, "fn": fn, "k": k, "found": fn == "ins", "o": o})
		}
		tr.Log(Ev{"e": "kend", "t": t, "err": true})
		tr.Log(Ev{"e": "rollback", "t": t, "fired": c.takeFired()})
	case called && fail && err != nil:
		// the callback failed: the call reports it and the transaction rolls back
		if createdRow {
			tr.Log(Ev{"e": "insfail", "t": t, "o": int(createdAt)})
			tr.Log(Ev{"e": "w", "t": t, "n": c.keyName(), "k": "put", "o": int(createdAt), "v": k})
		}
		tr.Log(Ev{"e": "kend", "t": t, "err": false})
		tr.Log(Ev{"e": "rollback", "t": t, "fired": c.takeFired()})
	case called && fail:
		tr.Log(Ev{"e": "mismatch", "what": "key shortcut: the callback failed and the call returned no error"})
	case called && err != nil:
		tr.Log(Ev{"e": "mismatch", "what": "key shortcut: the callback succeeded and the call returned an error: " + err.Error()})
	case !called:
		tr.Log(Ev{"e": "mismatch", "what": "key shortcut: no callback and no error"})
	}
}

// ShortInsertKey: Collection.InsertKey; a failing callback makes the call return the error and roll back.
func (c *Coll) ShortInsertKey(t, k string, ws []W, fail bool) {
	c.shortKey(t, "ins", k, func(kc *keyCall, body func(column.Row, bool) error) error {
		return c.C.InsertKey(KeyTokens[k], func(r column.Row) error { return body(r, true) })
	}, ws, fail, false, 0)
}

func (c *Coll) ShortUpsertKey(t, k string, ws []W, fail bool) {
	c.shortKey(t, "ups", k, func(kc *keyCall, body func(column.Row, bool) error) error {
		return c.C.UpsertKey(KeyTokens[k], func(r column.Row) error { return body(r, kc.missed) })
	}, ws, fail, false, 0)
}

func (c *Coll) ShortQueryKey(t, k string, ws []W, flavor int, fail bool) {
	c.shortKey(t, "qry", k, func(kc *keyCall, body func(column.Row, bool) error) error {
		return c.C.QueryKey(KeyTokens[k], func(r column.Row) error { return body(r, false) })
	}, ws, fail, true, flavor)
}

// ShortDeleteKey: Collection.DeleteKey; where the key points is looked up just before (nothing runs in between),
// the decision is logged ahead of the call and compared with what it returns.
func (c *Coll) ShortDeleteKey(t, k string) {
	tr := c.W.T
	tr.Log(Ev{"e": "begin", "t": t, "c": c.Name})
	found, at := false, uint32(0)
	c.C.QueryKey(KeyTokens[k], func(r column.Row) error { found, at = true, r.Index(); return nil })
	if found {
		c.W.Track(at)
	}
	tr.Log(Ev{"e": "kchk", "t": t, "fn": "del", "k": k, "found": found, "o": int(at)})
	if found {
		tr.Log(Ev{"e": "kdel", "t": t, "o": int(at)})
		tr.Log(Ev{"e": "kend", "t": t, "err": false})
		tr.Log(Ev{"e": "commitstart", "t": t})
	} else {
		tr.Log(Ev{"e": "kend", "t": t, "err": true})
	}
	err := c.C.DeleteKey(KeyTokens[k])
	if !found {
		tr.Log(Ev{"e": "rollback", "t": t, "fired": c.takeFired()})
	}
	if (err == nil) != found {
		tr.Log(Ev{"e": "mismatch", "what": "Collection.DeleteKey: error iff the key is absent", "err": err != nil, "found": found})
	}
}
