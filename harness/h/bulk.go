package h

import (
	"fmt"

	"github.com/kelindar/column"
)

// BulkInsert inserts n rows without values (prologue filler), one transaction per 16K block so that
// every bulk commit is a single-block commit. Each transaction is summarised as one event; its rows
// are expected to occupy one contiguous range.
func (c *Coll) BulkInsert(n int) {
	w := c.W
	for n > 0 {
		w.Bulk = true
		first, last, count := uint32(0), uint32(0), 0
		contiguous := true
		keyed := false
		for _, d := range c.Cols {
			keyed = keyed || d.Kind == "key"
		}
		c.C.Query(func(txn *column.Txn) error {
			for n > 0 {
				var o uint32
				if keyed {
					// filler rows of a keyed collection carry a key of their own ("f<n>") and nothing else
					c.fillerKeys++
					txn.InsertKey(fmt.Sprintf("f%d", c.fillerKeys), func(r column.Row) error { o = r.Index(); return nil })
				} else {
					o, _ = txn.Insert(func(r column.Row) error { return nil })
				}
				if count == 0 {
					first = o
				} else if o != last+1 {
					contiguous = false
				}
				last = o
				count++
				n--
				if (o+1)%16384 == 0 {
					break // the next row would start another block
				}
			}
			return nil
		})
		w.Bulk = false
		ids := c.Log.TakeBulkIds()
		if !contiguous || first/16384 != last/16384 {
			w.T.Log(Ev{"e": "unsupported", "what": fmt.Sprintf("bulk insert did not yield a contiguous range in one block: %d..%d", first, last)})
			return
		}
		w.T.Log(Ev{"e": "bulkins", "c": c.Name, "lo": int(first), "hi": int(last), "ids": ids})
	}
}

// BulkDelete deletes the filler rows lo..hi, one transaction per block.
func (c *Coll) BulkDelete(lo, hi uint32) {
	w := c.W
	for lo <= hi {
		end := (lo/16384+1)*16384 - 1
		if end > hi {
			end = hi
		}
		w.Bulk = true
		missed := 0
		c.C.Query(func(txn *column.Txn) error {
			for o := lo; o <= end; o++ {
				if !txn.DeleteAt(o) {
					missed++
				}
			}
			return nil
		})
		w.Bulk = false
		ids := c.Log.TakeBulkIds()
		if missed > 0 {
			w.T.Log(Ev{"e": "unsupported", "what": "bulk delete of rows that are not selected"})
			return
		}
		w.T.Log(Ev{"e": "bulkdel", "c": c.Name, "lo": int(lo), "hi": int(end), "ids": ids})
		lo = end + 1
	}
}

// ReplayTo replays on dst every commit of c's stream that has not been replayed yet, through the
// collection's transport (cloned commits for "chan", a real commit.Log round trip for "log").
func (c *Coll) ReplayTo(dst *Coll, t string) error {
	w := c.W
	stored := c.Log.Stored()
	for i := dst.replayed[c.Name]; i < len(stored); i++ {
		s := stored[i]
		cm, err := c.Log.Deliver(i)
		if err != nil {
			return err
		}
		if s.Bulk {
			w.Bulk = true
			err = dst.C.Replay(cm)
			w.Bulk = false
			ids := dst.Log.TakeBulkIds()
			if len(ids) != 1 {
				w.T.Log(Ev{"e": "unsupported", "what": fmt.Sprintf("bulk replay produced %d commits", len(ids))})
			} else {
				w.T.Log(Ev{"e": "bulkreplay", "c": dst.Name, "src": c.Name, "i": i + 1, "id": ids[0]})
			}
		} else {
			w.T.SetCur(t)
			w.T.Log(Ev{"e": "replay", "t": t, "c": dst.Name, "src": c.Name, "i": i + 1})
			err = dst.C.Replay(cm)
			w.T.SetCur("m")
		}
		if err != nil {
			return err
		}
		dst.replayed[c.Name] = i + 1
	}
	return nil
}
