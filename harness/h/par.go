package h

import (
	"fmt"
	"math/rand"
	"runtime"
	"runtime/debug"
	"sync"
	"sync/atomic"
	"time"
)

// ParProfile parameterises the real-parallelism family: goroutines that really run in parallel (no scheduler, no
// hook) write and merge into a few existing rows spread over several blocks. Only operations whose logged order is
// fixed by the code's own locks are used: buffered writes are local to their transaction, every apply is logged by the
// in-latch logger (which here also logs the release of the latch), and nothing is read or reserved while others run.
type ParProfile struct {
	Name    string
	Cols    []ColDesc
	Writers int
	Txns    int
	Blocks  int
	PMerge  float64
}

func ParProfileFor(name string, seed int64) ParProfile {
	r := rand.New(rand.NewSource(seed ^ 0x9a7))
	p := ParProfile{Name: name, Writers: 4 + r.Intn(3), Txns: 30, Blocks: 2 + r.Intn(2), PMerge: 0.8}
	switch name {
	default: // c09: concurrent merges in one and several blocks: numbers, strings, records; commutative and order-sensitive
		p.Cols = []ColDesc{
			// (no affine merge here: without the scheduler nothing bounds how often it is applied between two puts)
			{"a", "int", []string{"add", "sat"}[r.Intn(2)], []string{"int", "int16", "int32", "int64", "uint16", "uint32", "uint64", "float32", "float64"}[r.Intn(9)]},
			{"y", "int", []string{"add", "sat"}[r.Intn(2)], "record"},
			{"s", "str", "concat", []string{"string", "recordvar"}[r.Intn(2)]},
		}
	}
	return p
}

// RunPar runs one real-parallel scenario and returns its events (validated by ColumnTrace like any other).
func RunPar(seed int64, p ParProfile) (out []Ev) {
	rnd := rand.New(rand.NewSource(seed))
	w := NewWorld()
	defer w.Close()
	defer func() {
		if r := recover(); r != nil {
			w.T.Log(Ev{"e": "panic", "t": "m", "what": fmt.Sprint(r), "stack": string(debug.Stack())})
			out = w.T.Finish()
		}
	}()
	P := w.NewColl("P", 64, "log", 0)
	for _, d := range p.Cols {
		P.CreateColumn(d)
	}
	InstallSeqHook(w)
	// rows: two per block, next to the block boundaries
	P.BulkInsert(p.Blocks * 16384) // completely full: the next insert takes the offset freed just before
	var rows []uint32
	for b := 0; b < p.Blocks; b++ {
		for _, o := range []uint32{uint32(b)*16384 + 5, uint32(b+1)*16384 - 9} {
			P.BulkDelete(o, o)
			P.Txn("m", func(x *Tx) error {
				at, _ := x.Insert([]W{{"a", "put", 1}, {"y", "put", 1}, {"s", "put", []int{0}}}, false)
				rows = append(rows, at)
				return nil
			})
			if n := len(rows); rows[n-1] != o {
				w.T.Log(Ev{"e": "unsupported", "what": fmt.Sprintf("par: the tracked row landed at %d, not at %d", rows[n-1], o)})
			}
		}
	}
	P.Dump(1)
	UninstallHook()
	w.Par = true
	atomic.StoreInt32(&MergeYield, 1)
	defer atomic.StoreInt32(&MergeYield, 0)
	var wg sync.WaitGroup
	var crashed int32
	for g := 0; g < p.Writers; g++ {
		wg.Add(1)
		name := fmt.Sprintf("w%d", g+1)
		lr := rand.New(rand.NewSource(seed*131 + int64(g)))
		go func() {
			defer wg.Done()
			w.T.Register(name)
			defer w.T.Unregister()
			defer func() {
				if r := recover(); r != nil {
					atomic.StoreInt32(&crashed, 1)
					w.T.Log(Ev{"e": "panic", "t": name, "what": fmt.Sprint(r), "stack": string(debug.Stack())})
				}
			}()
			for i := 0; i < p.Txns && atomic.LoadInt32(&crashed) == 0; i++ {
				P.Txn(name, func(x *Tx) error {
					for k := 0; k < 1+lr.Intn(3); k++ {
						o := rows[lr.Intn(len(rows))]
						d := p.Cols[lr.Intn(len(p.Cols))]
						var wr W
						switch {
						case d.Kind == "str":
							if lr.Float64() < 0.5 {
								wr = W{d.Name, "mrg", []int{lr.Intn(3)}}
							} else {
								wr = W{d.Name, "put", []int{lr.Intn(3)}}
							}
						default:
							if lr.Float64() < p.PMerge {
								wr = W{d.Name, "mrg", 1 + lr.Intn(3)}
							} else {
								wr = W{d.Name, "put", lr.Intn(5)}
							}
						}
						x.At(o, []W{wr}, false, 0)
					}
					if lr.Intn(12) == 0 {
						return ErrFail // gives up: what it buffered must not be applied, and its transaction object not be shared
					}
					return nil
				})
			}
		}()
	}
	done := make(chan struct{})
	go func() { wg.Wait(); close(done) }()
	select {
	case <-done:
	case <-time.After(180 * time.Second):
		// the workload takes about a second; the harness itself never blocks outside the library's calls, so this
		// is the library not returning from a legal call (recorded, and no specification action explains it)
		buf := make([]byte, 1<<16)
		buf = buf[:runtime.Stack(buf, true)]
		w.T.Log(Ev{"e": "stuck", "t": "m", "what": "the writers did not finish within 180 s", "stack": string(buf)})
		return w.T.Finish()
	}
	_ = rnd
	w.Par = false
	atomic.StoreInt32(&MergeYield, 0)
	InstallSeqHook(w)
	defer UninstallHook()
	if atomic.LoadInt32(&crashed) == 0 {
		P.Dump(1)
	}
	return w.T.Finish()
}
