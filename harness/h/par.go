package h

import (
	"fmt"

	"github.com/kelindar/bitmap"
	"github.com/kelindar/column"
	"github.com/kelindar/column/commit"

	"math/rand"
	"runtime"
	"runtime/debug"
	"sync"
	"sync/atomic"
	"time"
)

// ParProfile parameterises the real-parallelism family: goroutines that really run in parallel (no scheduler, no
// hook) write and merge into a few existing rows spread over several blocks. Only operations whose logged order is
// fixed by the code's own locks are used: buffered writes are local to their transaction, every apply is logged by the
// in-latch logger (which here also logs the release of the latch), and nothing is read or reserved while others run.
type ParProfile struct {
	Name    string
	Cols    []ColDesc
	Writers int
	Txns    int
	Blocks  int
	PMerge  float64
	Snap    bool // a snapshot is taken beside the writers (restored into a fresh collection afterwards)
}

// probeCol is a column of the harness's own (the library accepts any implementation of its Column interface): it holds
// nothing, and its Snapshot method - which the library calls while it writes a block, inside that block's read latch - logs
// the block. Under real parallelism this is the only exact record of WHEN a block was written relative to the commits applied
// to it (which the in-latch logger records inside the same block's write latch).
type probeCol struct{ w *World }

func (p *probeCol) Grow(uint32)                        {}
func (p *probeCol) Apply(commit.Chunk, *commit.Reader) {}
func (p *probeCol) Value(uint32) (interface{}, bool)   { return nil, false }
func (p *probeCol) Contains(uint32) bool               { return false }
func (p *probeCol) Index(commit.Chunk) bitmap.Bitmap   { return nil }
func (p *probeCol) Snapshot(chunk commit.Chunk, _ *commit.Buffer) {
	if p.w.Par {
		p.w.T.Log(Ev{"e": "snap", "t": p.w.T.Actor(), "at": "read", "b": int(chunk)})
	}
}

func ParProfileFor(name string, seed int64) ParProfile {
	r := rand.New(rand.NewSource(seed ^ 0x9a7))
	p := ParProfile{Name: name, Writers: 4 + r.Intn(3), Txns: 30, Blocks: 2 + r.Intn(2), PMerge: 0.8}
	p.Snap = name == "c08"
	switch name {
	default: // c09 (and c08: the same writers beside a snapshot): concurrent merges in one and several blocks: numbers, strings, records; commutative and order-sensitive
		p.Cols = []ColDesc{
			// (no affine merge here: without the scheduler nothing bounds how often it is applied between two puts)
			{"a", "int", []string{"add", "sat"}[r.Intn(2)], []string{"int", "int16", "int32", "int64", "uint16", "uint32", "uint64", "float32", "float64"}[r.Intn(9)]},
			{"y", "int", []string{"add", "sat"}[r.Intn(2)], "record"},
			{"s", "str", "concat", []string{"string", "recordvar"}[r.Intn(2)]},
		}
	}
	return p
}

// RunPar runs one real-parallel scenario and returns its events (validated by ColumnTrace like any other).
func RunPar(seed int64, p ParProfile) (out []Ev) {
	rnd := rand.New(rand.NewSource(seed))
	w := NewWorld()
	defer w.Close()
	defer func() {
		if r := recover(); r != nil {
			w.T.Log(Ev{"e": "panic", "t": "m", "what": fmt.Sprint(r), "stack": string(debug.Stack())})
			out = w.T.Finish()
		}
	}()
	if seed%2 == 1 {
		w.WideCols["a"], w.WideCols["y"] = true, true // values and deltas of more than 32 bits (a: by its kind; y: a record)
	}
	P := w.NewColl("P", 64, "log", 0)
	for _, d := range p.Cols {
		P.CreateColumn(d)
	}
	if p.Snap {
		P.C.CreateColumn("zprobe", &probeCol{w})
	}
	InstallSeqHook(w)
	// rows: two per block, next to the block boundaries
	P.BulkInsert(p.Blocks * 16384) // completely full: the next insert takes the offset freed just before
	var rows []uint32
	at := [][]uint32{}
	for b := 0; b < p.Blocks; b++ {
		at = append(at, []uint32{uint32(b)*16384 + 5, uint32(b+1)*16384 - 9})
	}
	if p.Snap && seed%2 == 0 {
		// every other scenario beside a snapshot has all its rows in ONE block: every commit then contends for the latch the
		// snapshot needs for that block's image (the others spread them over all blocks: commits to different blocks reach the
		// recorder in an order nothing observes - ColumnTrace's TRestoreReorder)
		hot := uint32(rnd.Intn(p.Blocks))
		at = [][]uint32{{hot*16384 + 5, hot*16384 + 700, hot*16384 + 9000, (hot+1)*16384 - 9}}
	}
	for _, os := range at {
		for _, o := range os {
			P.BulkDelete(o, o)
			P.Txn("m", func(x *Tx) error {
				at, _ := x.Insert([]W{{"a", "put", 1}, {"y", "put", 1}, {"s", "put", []int{0}}}, false)
				rows = append(rows, at)
				return nil
			})
			if n := len(rows); rows[n-1] != o {
				w.T.Log(Ev{"e": "unsupported", "what": fmt.Sprintf("par: the tracked row landed at %d, not at %d", rows[n-1], o)})
			}
		}
	}
	P.Dump(1)
	UninstallHook()
	w.Par = true
	atomic.StoreInt32(&MergeYield, 1)
	defer atomic.StoreInt32(&MergeYield, 0)
	var wg sync.WaitGroup
	var crashed, snapDone int32
	var gate sync.RWMutex
	srnd := rand.New(rand.NewSource(seed ^ 0x5a5a)) // used by the snapshot goroutine only
	if p.Snap {
		// the snapshot protocol's points as the snapshot goroutine passes them (no lock held there): the recorder installed,
		// the header written, every block written (recorder still installed), recorder detached
		column.VerifYield = func(point string, _ *column.Txn, chunk uint32) {
			if point == "snap.opened" || point == "snap.block" || point == "snap.closing" {
				// (no lock is held at these points: a snapshot goroutine that is slow here lets commits through between the blocks)
				time.Sleep(time.Duration(srnd.Intn(300)) * time.Microsecond)
			}
			switch point {
			case "snap.opened", "snap.copying":
				w.SnapHook(point, chunk)
			case "snap.block":
				if chunk == 0 {
					w.SnapHook(point, chunk)
				}
			case "snap.closing":
				// the detaching of the recorder is not synchronised with the block latches: it gets an exact place in the trace
				// by letting the transactions in flight finish and holding new ones back until it is done
				gate.Lock()
				w.T.Log(Ev{"e": "snap", "t": w.T.Actor(), "at": "allread"})
			}
			if point == "snap.copying" {
				gate.Unlock()
			}
		}
		defer UninstallHook()
		wg.Add(1)
		go func() {
			defer wg.Done()
			w.T.Register("sn")
			defer w.T.Unregister()
			defer atomic.StoreInt32(&snapDone, 1)
			defer func() {
				if r := recover(); r != nil {
					atomic.StoreInt32(&crashed, 1)
					w.T.Log(Ev{"e": "panic", "t": "sn", "what": fmt.Sprint(r), "stack": string(debug.Stack())})
				}
			}()
			time.Sleep(time.Duration(rnd.Intn(1500)) * time.Microsecond)
			P.Snapshot("sn", "pf1", nil)
		}()
	} else {
		snapDone = 1
	}
	for g := 0; g < p.Writers; g++ {
		wg.Add(1)
		name := fmt.Sprintf("w%d", g+1)
		lr := rand.New(rand.NewSource(seed*131 + int64(g)))
		go func() {
			defer wg.Done()
			w.T.Register(name)
			defer w.T.Unregister()
			defer func() {
				if r := recover(); r != nil {
					atomic.StoreInt32(&crashed, 1)
					w.T.Log(Ev{"e": "panic", "t": name, "what": fmt.Sprint(r), "stack": string(debug.Stack())})
				}
			}()
			after := 0 // (beside a snapshot: until it has returned and two transactions more, at least 6 and at most p.Txns)
			for i := 0; i < p.Txns && atomic.LoadInt32(&crashed) == 0; i++ {
				if p.Snap && i >= 6 && atomic.LoadInt32(&snapDone) == 1 {
					if after++; after > 2 {
						break
					}
				}
				gate.RLock()
				P.Txn(name, func(x *Tx) error {
					for k := 0; k < 1+lr.Intn(3); k++ {
						o := rows[lr.Intn(len(rows))]
						d := p.Cols[lr.Intn(len(p.Cols))]
						var wr W
						switch {
						case d.Kind == "str":
							if lr.Float64() < 0.5 {
								wr = W{d.Name, "mrg", []int{lr.Intn(3)}}
							} else {
								wr = W{d.Name, "put", []int{lr.Intn(3)}}
							}
						default:
							if lr.Float64() < p.PMerge {
								wr = W{d.Name, "mrg", 1 + lr.Intn(3)}
							} else {
								wr = W{d.Name, "put", lr.Intn(5)}
							}
						}
						x.At(o, []W{wr}, false, 0)
					}
					if lr.Intn(12) == 0 {
						return ErrFail // gives up: what it buffered must not be applied, and its transaction object not be shared
					}
					return nil
				})
				gate.RUnlock()
			}
		}()
	}
	done := make(chan struct{})
	go func() { wg.Wait(); close(done) }()
	select {
	case <-done:
	case <-time.After(180 * time.Second):
		// the workload takes about a second; the harness itself never blocks outside the library's calls, so this
		// is the library not returning from a legal call (recorded, and no specification action explains it)
		buf := make([]byte, 1<<16)
		buf = buf[:runtime.Stack(buf, true)]
		w.T.Log(Ev{"e": "stuck", "t": "m", "what": "the writers did not finish within 180 s", "stack": string(buf)})
		return w.T.Finish()
	}
	_ = rnd
	w.Par = false
	atomic.StoreInt32(&MergeYield, 0)
	InstallSeqHook(w)
	defer UninstallHook()
	if atomic.LoadInt32(&crashed) == 0 {
		P.Dump(1)
		if _, ok := w.Blobs["pf1"]; ok && p.Snap {
			S := w.NewColl("S1", 64, "log", 0)
			for _, d := range p.Cols {
				S.CreateColumn(d)
			}
			S.C.CreateColumn("zprobe", &probeCol{w})
			S.Restore("rs", "pf1", -1)
			S.Dump(1)
		}
	}
	return w.T.Finish()
}
