package h

import (
	"fmt"
	"math"
	"os"
	"sort"
	"strings"
	"sync"
	"sync/atomic"
	"time"

	"github.com/kelindar/column"
	"github.com/kelindar/column/commit"
)

func sortStrings(s []string) { sort.Strings(s) }

type IdxDesc struct {
	Name string `json:"n"`
	Col  string `json:"col"`
	F    string `json:"f"` // ge | lt | eq | true
	A    any    `json:"a"`
}

// Coll is one real collection plus what the harness needs to talk to it.
type Coll struct {
	W          *World
	Name       string
	C          *column.Collection
	Cols       []ColDesc
	Idx        []IdxDesc
	Sorts      [][2]string // name, column
	Trigs      [][2]string // name, column
	Log        *RecLogger
	Keys       []string // key alphabet probed by dumps
	Restoring  bool     // a Restore is running: insert markers of untracked rows are logged as runs
	fillerKeys int      // keys handed to filler rows of a keyed collection
	writes     int64    // number of writes issued so far (selects the writer flavor)
	creates    int64    // number of plain columns created so far (selects CreateColumn / CreateColumnsOf)
	oneshots   int64    // number of hidden one-shot triggers registered so far
	hidden     []*oneShot

	fmu      sync.Mutex
	fired    map[string][]Ev // trigger calls since the last apply event
	replayed map[string]int  // per source collection: how many of its commits were replayed here
}

// oneShot is a hidden trigger that drops itself from inside a commit once two recorded triggers of its column stand behind it.
type oneShot struct {
	col   string
	after map[string]bool // recorded triggers of the column created after it and still there
	done  bool
}

// World is one scenario's universe: collections, tracer, bookkeeping of addressed offsets.
type World struct {
	T       *Tracer
	OneShot bool // CreateTrigger registers a hidden self-dropping trigger before each recorded one
	Colls   map[string]*Coll
	tmu     sync.Mutex
	tracked map[uint32]bool // offsets the harness has addressed individually
	Bulk    bool            // a bulk prologue step is running: loggers summarise
	Par     bool            // real-parallelism family: the in-latch logger also logs the release of the latch
	Blobs   map[string][]byte
	snapOf  map[string]string // actor -> collection it is snapshotting
	// WideCols: numeric columns (by name; default additive merge only) whose values the harness writes multiplied by a
	// large odd factor and reads divided by it: the model keeps its small integers, the real values and deltas need more
	// than 32 bits (or more than 20, for the 32-bit kinds). The additive merge is linear, so nothing else changes.
	WideCols map[string]bool
}

// wideFactor is the factor for a representation (1: not scaled).
func wideFactor(repr string) int {
	switch repr {
	case "int", "int64", "uint", "uint64", "float64", "record":
		return 1<<33 + 1
	case "int32", "uint32":
		return 1<<20 + 1
	}
	return 1
}

func (c *Coll) wide(d ColDesc) int {
	if d.Kind == "int" && d.Merge == "add" && c.W.WideCols[d.Name] {
		return wideFactor(d.Repr)
	}
	return 1
}

// narrow maps a real value back to the model's (a value that is no multiple of the factor maps to a number no model value equals).
func (c *Coll) narrow(d ColDesc, v any) any {
	f := c.wide(d)
	x, isInt := v.(int)
	if f == 1 || !isInt {
		return v
	}
	if x%f != 0 {
		return -1000000000 - (x%f+f)%f%1000
	}
	return x / f
}

func NewWorld() *World {
	return &World{T: NewTracer(), Colls: map[string]*Coll{}, tracked: map[uint32]bool{}, Blobs: map[string][]byte{}, snapOf: map[string]string{}, WideCols: map[string]bool{}}
}

func (w *World) Track(o uint32) { w.tmu.Lock(); w.tracked[o] = true; w.tmu.Unlock() }
func (w *World) IsTracked(o uint32) bool {
	w.tmu.Lock()
	defer w.tmu.Unlock()
	return w.tracked[o]
}

// NewColl creates a collection. transport: "chan" (commit.Channel, cloned buffers), "log" (commit.Log file).
func (w *World) NewColl(name string, capacity int, transport string, vacuum time.Duration) *Coll {
	c := &Coll{W: w, Name: name, fired: map[string][]Ev{}, replayed: map[string]int{}}
	c.Log = newRecLogger(c, transport)
	if vacuum == 0 {
		vacuum = time.Hour
	}
	c.C = column.NewCollection(column.Options{Capacity: capacity, Writer: c.Log, Vacuum: vacuum})
	w.Colls[name] = c
	w.T.Log(Ev{"e": "transport", "c": name, "tp": transport})
	return c
}

func (w *World) Close() {
	for _, c := range w.Colls {
		c.C.Close()
		c.Log.Close()
	}
}

func (c *Coll) Desc(name string) (ColDesc, bool) {
	for _, d := range c.Cols {
		if d.Name == name {
			return d, true
		}
	}
	return ColDesc{}, false
}

// kindSample is a value of the Go type that Collection.CreateColumnsOf maps to the column kind of a descriptor
// (only the plain kinds: no merge option, no enum / key / record).
func kindSample(d ColDesc) (any, bool) {
	if d.Merge != "" && d.Merge != "add" {
		return nil, false
	}
	switch d.Repr {
	case "int":
		return int(0), true
	case "int16":
		return int16(0), true
	case "int32":
		return int32(0), true
	case "int64":
		return int64(0), true
	case "uint":
		return uint(0), true
	case "uint16":
		return uint16(0), true
	case "uint32":
		return uint32(0), true
	case "uint64":
		return uint64(0), true
	case "float32":
		return float32(0), true
	case "float64":
		return float64(0), true
	case "bool":
		return false, true
	case "string":
		if d.Merge == "" {
			return "", true
		}
	}
	return nil, false
}

func (c *Coll) CreateColumn(d ColDesc) error {
	if d.Name == "expire" {
		// the time-to-live column exists in every collection (an ordinary int64 column with a reserved name): it is only
		// adopted, so that the histories write deadlines straight into it and every comparison includes it
		c.Cols = append(c.Cols, d)
		c.W.T.Log(Ev{"e": "createcol", "c": c.Name, "n": d.Name, "k": d.Kind, "m": d.Merge})
		return nil
	}
	// every other plain column is created through CreateColumnsOf (kind taken from a sample value)
	if v, ok := kindSample(d); ok && atomic.AddInt64(&c.creates, 1)%2 == 0 {
		if err := c.C.CreateColumnsOf(map[string]any{d.Name: v}); err != nil {
			return err
		}
	} else if err := c.C.CreateColumn(d.Name, MakeColumn(d)); err != nil {
		return err
	}
	c.Cols = append(c.Cols, d)
	c.W.T.Log(Ev{"e": "createcol", "c": c.Name, "n": d.Name, "k": d.Kind, "m": d.Merge})
	return nil
}

// DropColumn removes a data column. Indexes, sorted indexes and triggers computed from it stay registered (and
// listed here): the library detaches them.
func (c *Coll) DropColumn(name string) {
	c.C.DropColumn(name)
	for i, d := range c.Cols {
		if d.Name == name {
			c.Cols = append(c.Cols[:i:i], c.Cols[i+1:]...)
			break
		}
	}
	c.W.T.Log(Ev{"e": "dropcol", "c": c.Name, "n": name})
}

// ---- computed columns ------------------------------------------------------------------------

// readerValue decodes what a computed column's Reader carries, by the source column's repr.
func readerValue(d ColDesc, r column.Reader) any {
	switch d.Kind {
	case "bool":
		return r.Bool()
	case "str":
		return StringToSeq(r.String())
	case "key":
		return tokenOfString(KeyTokens, r.String())
	case "int":
		switch d.Repr {
		case "float32", "float64":
			return int(r.Float())
		case "record":
			var x Rec
			if err := x.UnmarshalBinary(r.Bytes()); err != nil {
				return -1
			}
			return int(x.V)
		case "uint", "uint16", "uint32", "uint64":
			return int(r.Uint())
		default:
			return r.Int()
		}
	case "enum":
		return tokenOfString(EnumTokens, r.String())
	case "tok":
		switch d.Repr {
		case "string", "recordvar":
			return tokenOfString(StringTokens, r.String())
		}
	}
	return fmt.Sprintf("unreadable:%s/%s", d.Kind, d.Repr)
}

func (c *Coll) predicate(x IdxDesc) func(r column.Reader) bool {
	d, _ := c.Desc(x.Col)
	return func(r column.Reader) bool {
		v := c.narrow(d, readerValue(d, r))
		switch x.F {
		case "ge":
			return v.(int) >= toInt(x.A)
		case "lt":
			return v.(int) < toInt(x.A)
		case "eq":
			return fmt.Sprint(v) == fmt.Sprint(x.A)
		case "true":
			return v.(bool)
		}
		panic("predicate " + x.F)
	}
}

func (c *Coll) CreateIndex(x IdxDesc) error {
	if err := c.C.CreateIndex(x.Name, x.Col, c.predicate(x)); err != nil {
		return err
	}
	c.Idx = append(c.Idx, x)
	c.W.T.Log(Ev{"e": "createidx", "c": c.Name, "n": x.Name, "col": x.Col, "p": Ev{"f": x.F, "a": x.A}})
	return nil
}

func (c *Coll) DropIndex(name string) error {
	if err := c.C.DropIndex(name); err != nil {
		return err
	}
	for i, x := range c.Idx {
		if x.Name == name {
			c.Idx = append(c.Idx[:i:i], c.Idx[i+1:]...)
			break
		}
	}
	c.W.T.Log(Ev{"e": "dropidx", "c": c.Name, "n": name})
	return nil
}

func (c *Coll) CreateSort(name, col string) error {
	if err := c.C.CreateSortIndex(name, col); err != nil {
		return err
	}
	c.Sorts = append(c.Sorts, [2]string{name, col})
	c.W.T.Log(Ev{"e": "createsort", "c": c.Name, "n": name, "col": col})
	return nil
}

func (c *Coll) CreateTrigger(name, col string) error {
	d, _ := c.Desc(col)
	if c.W.OneShot {
		// a one-shot trigger registered just before the recorded one: it drops itself from inside its first call, that is
		// while a commit walks the computed columns of this column. The specification does not know it (no event, no
		// fired list): the recorded triggers behind it must get every committed change exactly once all the same, since
		// the commit in flight walks the list it loaded.
		hn := fmt.Sprintf("zz1-%s-%d", name, atomic.AddInt64(&c.oneshots, 1))
		h := &oneShot{col: col, after: map[string]bool{}}
		if err := c.C.CreateTrigger(hn, col, func(column.Reader) {
			c.fmu.Lock()
			fire := !h.done && len(h.after) >= 2 // at least two recorded triggers behind it: dropping it shifts them
			h.done = h.done || fire
			c.fmu.Unlock()
			if fire {
				c.C.DropTrigger(hn)
			}
		}); err != nil {
			return err
		}
		c.fmu.Lock()
		c.hidden = append(c.hidden, h)
		c.fmu.Unlock()
	}
	c.fmu.Lock()
	for _, h := range c.hidden {
		if h.col == col && !h.done {
			h.after[name] = true
		}
	}
	c.fmu.Unlock()
	err := c.C.CreateTrigger(name, col, func(r column.Reader) {
		e := Ev{"o": int(r.Index())}
		if r.IsDelete() {
			e["k"], e["v"] = "del", 0
		} else {
			e["k"], e["v"] = "put", c.narrow(d, readerValue(d, r))
		}
		c.fmu.Lock()
		c.fired[name] = append(c.fired[name], e)
		c.fmu.Unlock()
	})
	if err != nil {
		return err
	}
	c.Trigs = append(c.Trigs, [2]string{name, col})
	c.W.T.Log(Ev{"e": "createtrig", "c": c.Name, "n": name, "col": col})
	return nil
}

func (c *Coll) DropTrigger(name string) error {
	if err := c.C.DropTrigger(name); err != nil {
		return err
	}
	for i, x := range c.Trigs {
		if x[0] == name {
			c.Trigs = append(c.Trigs[:i:i], c.Trigs[i+1:]...)
			break
		}
	}
	c.fmu.Lock()
	for _, h := range c.hidden {
		delete(h.after, name)
	}
	c.fmu.Unlock()
	c.W.T.Log(Ev{"e": "droptrig", "c": c.Name, "n": name})
	return nil
}

func (c *Coll) takeFired() map[string][]Ev {
	c.fmu.Lock()
	defer c.fmu.Unlock()
	out := c.fired
	c.fired = map[string][]Ev{}
	return out
}

// ---- writes ----------------------------------------------------------------------------------

// Write buffers one operation on the row the cursor is at and logs it.
func (c *Coll) Write(t string, r column.Row, d ColDesc, k string, v any) {
	name := d.Name
	mrg := k == "mrg"
	model := v // what is logged
	if f := c.wide(d); f != 1 {
		v = toInt(v) * f
	}
	// every third put goes through the untyped writers (Row.SetAny, Row.SetMany), which pick the encoding from the
	// Go type of the value
	if fl := atomic.AddInt64(&c.writes, 1) % 6; !mrg && d.Kind != "key" && (fl == 2 || fl == 5) {
		if tv, ok := typedAny(d, v); ok {
			if fl == 2 {
				r.SetAny(name, tv)
			} else if err := r.SetMany(map[string]any{name: tv}); err != nil {
				panic("SetMany: " + err.Error())
			}
			c.W.T.Log(Ev{"e": "w", "t": t, "n": name, "k": k, "o": int(r.Index()), "v": model})
			return
		}
	}
	switch d.Kind {
	case "bool":
		r.SetBool(name, v.(bool))
	case "str":
		s := SeqToString(v)
		switch d.Repr {
		case "string":
			if mrg {
				r.MergeString(name, s)
			} else {
				r.SetString(name, s)
			}
		case "recordvar":
			if mrg {
				r.MergeRecord(name, &RecVar{s})
			} else {
				r.SetRecord(name, &RecVar{s})
			}
		}
	case "key":
		r.SetKey(KeyTokens[v.(string)])
	case "enum":
		r.SetEnum(name, EnumTokens[v.(string)])
	case "int":
		x := toInt(v)
		switch d.Repr {
		case "int":
			if mrg {
				r.MergeInt(name, x)
			} else {
				r.SetInt(name, x)
			}
		case "int16":
			if mrg {
				r.MergeInt16(name, int16(x))
			} else {
				r.SetInt16(name, int16(x))
			}
		case "int32":
			if mrg {
				r.MergeInt32(name, int32(x))
			} else {
				r.SetInt32(name, int32(x))
			}
		case "int64":
			if mrg {
				r.MergeInt64(name, int64(x))
			} else {
				r.SetInt64(name, int64(x))
			}
		case "uint":
			if mrg {
				r.MergeUint(name, uint(x))
			} else {
				r.SetUint(name, uint(x))
			}
		case "uint16":
			if mrg {
				r.MergeUint16(name, uint16(x))
			} else {
				r.SetUint16(name, uint16(x))
			}
		case "uint32":
			if mrg {
				r.MergeUint32(name, uint32(x))
			} else {
				r.SetUint32(name, uint32(x))
			}
		case "uint64":
			if mrg {
				r.MergeUint64(name, uint64(x))
			} else {
				r.SetUint64(name, uint64(x))
			}
		case "float32":
			if mrg {
				r.MergeFloat32(name, float32(x))
			} else {
				r.SetFloat32(name, float32(x))
			}
		case "float64":
			if mrg {
				r.MergeFloat64(name, float64(x))
			} else {
				r.SetFloat64(name, float64(x))
			}
		case "record":
			if mrg {
				r.MergeRecord(name, &Rec{int64(x)})
			} else {
				r.SetRecord(name, &Rec{int64(x)})
			}
		}
	case "tok":
		tok := v.(string)
		switch d.Repr {
		case "string":
			r.SetString(name, StringTokens[tok])
		case "recordvar":
			r.SetRecord(name, &RecVar{StringTokens[tok]})
		case "float64":
			r.SetFloat64(name, math.Float64frombits(f64Tokens[tok]))
		case "float32":
			r.SetFloat32(name, math.Float32frombits(f32Tokens[tok]))
		case "int":
			r.SetInt(name, int(intTokens(d.Repr)[tok]))
		case "int16":
			r.SetInt16(name, int16(intTokens(d.Repr)[tok]))
		case "int32":
			r.SetInt32(name, int32(intTokens(d.Repr)[tok]))
		case "int64":
			r.SetInt64(name, int64(intTokens(d.Repr)[tok]))
		case "uint":
			r.SetUint(name, uint(intTokens(d.Repr)[tok]))
		case "uint16":
			r.SetUint16(name, uint16(intTokens(d.Repr)[tok]))
		case "uint32":
			r.SetUint32(name, uint32(intTokens(d.Repr)[tok]))
		case "uint64":
			r.SetUint64(name, uint64(intTokens(d.Repr)[tok]))
		}
	}
	c.W.T.Log(Ev{"e": "w", "t": t, "n": name, "k": k, "o": int(r.Index()), "v": model})
}

// typedAny is the value as the Go type that the column's own typed writer would have been given.
func typedAny(d ColDesc, v any) (any, bool) {
	num := func(bits uint64, x int, tok bool) (any, bool) {
		switch d.Repr {
		case "int":
			if tok {
				return int(bits), true
			}
			return x, true
		case "int16":
			if tok {
				return int16(bits), true
			}
			return int16(x), true
		case "int32":
			if tok {
				return int32(bits), true
			}
			return int32(x), true
		case "int64":
			if tok {
				return int64(bits), true
			}
			return int64(x), true
		case "uint":
			if tok {
				return uint(bits), true
			}
			return uint(x), true
		case "uint16":
			if tok {
				return uint16(bits), true
			}
			return uint16(x), true
		case "uint32":
			if tok {
				return uint32(bits), true
			}
			return uint32(x), true
		case "uint64":
			if tok {
				return bits, true
			}
			return uint64(x), true
		case "float32":
			if tok {
				return math.Float32frombits(uint32(bits)), true
			}
			return float32(x), true
		case "float64":
			if tok {
				return math.Float64frombits(bits), true
			}
			return float64(x), true
		case "record":
			if !tok {
				return &Rec{int64(x)}, true
			}
		}
		return nil, false
	}
	switch d.Kind {
	case "bool":
		return v.(bool), true
	case "str":
		if d.Repr == "recordvar" {
			return &RecVar{SeqToString(v)}, true
		}
		return SeqToString(v), true
	case "enum":
		return EnumTokens[v.(string)], true
	case "int":
		return num(0, toInt(v), false)
	case "tok":
		tok := v.(string)
		switch d.Repr {
		case "string":
			return StringTokens[tok], true
		case "recordvar":
			return &RecVar{StringTokens[tok]}, true
		case "float64":
			return num(f64Tokens[tok], 0, true)
		case "float32":
			return num(uint64(f32Tokens[tok]), 0, true)
		}
		if d.Repr == "uint" && tok == "n16" {
			return uint16(0x8000), true
		}
		if d.Repr == "uint" && tok == "n32" {
			return uint32(0x80000000), true
		}
		return num(intTokens(d.Repr)[tok], 0, true)
	}
	return nil, false
}

// ---- reads -----------------------------------------------------------------------------------

// zeroOf is the placeholder logged for an absent value (never compared by the specification).
func zeroOf(d ColDesc) any {
	switch d.Kind {
	case "int":
		return 0
	case "str":
		return []int{}
	case "bool":
		return false
	}
	return ""
}

// ReadRow reads one column at the cursor; flavor selects the accessor family:
// 0 Row.X, 1 txn.X(name).Get(), 2 Row.Any.
func (c *Coll) ReadRow(txn *column.Txn, r column.Row, d ColDesc, flavor int) [2]any {
	p := c.readRow(txn, r, d, flavor)
	if p[0] == true {
		p[1] = c.narrow(d, p[1])
	}
	return p
}

func (c *Coll) readRow(txn *column.Txn, r column.Row, d ColDesc, flavor int) [2]any {
	name := d.Name
	if flavor == 2 {
		v, ok := r.Any(name)
		if !ok {
			return [2]any{false, zeroOf(d)}
		}
		return [2]any{true, c.fromAnyRaw(d, v)}
	}
	acc := flavor == 1
	absent := [2]any{false, zeroOf(d)}
	num := func(x int, ok bool) [2]any {
		if !ok {
			return absent
		}
		return [2]any{true, x}
	}
	bits := func(b uint64, ok bool, m map[string]uint64) [2]any {
		if !ok {
			return absent
		}
		return [2]any{true, tokenOfBits(m, b)}
	}
	str := func(s string, ok bool) [2]any {
		if !ok {
			return absent
		}
		switch {
		case d.Kind == "str":
			return [2]any{true, StringToSeq(s)}
		case d.Repr == "enum":
			return [2]any{true, tokenOfString(EnumTokens, s)}
		case d.Kind == "key":
			return [2]any{true, tokenOfString(KeyTokens, s)}
		}
		return [2]any{true, tokenOfString(StringTokens, s)}
	}
	switch d.Repr {
	case "bool":
		var b bool
		if acc {
			b = txn.Bool(name).Get()
		} else {
			b = r.Bool(name)
		}
		return [2]any{b, b}
	case "string":
		if acc {
			s, ok := txn.String(name).Get()
			return str(s, ok)
		}
		s, ok := r.String(name)
		return str(s, ok)
	case "enum":
		if acc {
			s, ok := txn.Enum(name).Get()
			return str(s, ok)
		}
		s, ok := r.Enum(name)
		return str(s, ok)
	case "key":
		if acc {
			s, ok := txn.Key().Get()
			return str(s, ok)
		}
		s, ok := r.Key()
		return str(s, ok)
	case "record":
		var v any
		var ok bool
		if acc {
			v, ok = txn.Record(name).Get()
		} else {
			v, ok = r.Record(name)
		}
		if !ok {
			return absent
		}
		return [2]any{true, int(v.(*Rec).V)}
	case "recordvar":
		var v any
		var ok bool
		if acc {
			v, ok = txn.Record(name).Get()
		} else {
			v, ok = r.Record(name)
		}
		if !ok {
			return absent
		}
		return str(v.(*RecVar).S, true)
	}
	tok := d.Kind == "tok"
	switch d.Repr {
	case "int":
		var v int
		var ok bool
		if acc {
			v, ok = txn.Int(name).Get()
		} else {
			v, ok = r.Int(name)
		}
		if tok {
			return bits(uint64(v), ok, intTokens(d.Repr))
		}
		return num(int(v), ok)
	case "int16":
		var v int16
		var ok bool
		if acc {
			v, ok = txn.Int16(name).Get()
		} else {
			v, ok = r.Int16(name)
		}
		if tok {
			return bits(uint64(uint16(v)), ok, intTokens(d.Repr))
		}
		return num(int(v), ok)
	case "int32":
		var v int32
		var ok bool
		if acc {
			v, ok = txn.Int32(name).Get()
		} else {
			v, ok = r.Int32(name)
		}
		if tok {
			return bits(uint64(uint32(v)), ok, intTokens(d.Repr))
		}
		return num(int(v), ok)
	case "int64":
		var v int64
		var ok bool
		if acc {
			v, ok = txn.Int64(name).Get()
		} else {
			v, ok = r.Int64(name)
		}
		if tok {
			return bits(uint64(v), ok, intTokens(d.Repr))
		}
		return num(int(v), ok)
	case "uint":
		var v uint
		var ok bool
		if acc {
			v, ok = txn.Uint(name).Get()
		} else {
			v, ok = r.Uint(name)
		}
		if tok {
			return bits(uint64(v), ok, intTokens(d.Repr))
		}
		return num(int(v), ok)
	case "uint16":
		var v uint16
		var ok bool
		if acc {
			v, ok = txn.Uint16(name).Get()
		} else {
			v, ok = r.Uint16(name)
		}
		if tok {
			return bits(uint64(v), ok, intTokens(d.Repr))
		}
		return num(int(v), ok)
	case "uint32":
		var v uint32
		var ok bool
		if acc {
			v, ok = txn.Uint32(name).Get()
		} else {
			v, ok = r.Uint32(name)
		}
		if tok {
			return bits(uint64(v), ok, intTokens(d.Repr))
		}
		return num(int(v), ok)
	case "uint64":
		var v uint64
		var ok bool
		if acc {
			v, ok = txn.Uint64(name).Get()
		} else {
			v, ok = r.Uint64(name)
		}
		if tok {
			return bits(v, ok, intTokens(d.Repr))
		}
		return num(int(v), ok)
	case "float32":
		var v float32
		var ok bool
		if acc {
			v, ok = txn.Float32(name).Get()
		} else {
			v, ok = r.Float32(name)
		}
		if tok {
			if !ok {
				return absent
			}
			m := map[string]uint64{}
			for k, b := range f32Tokens {
				m[k] = uint64(b)
			}
			return [2]any{true, tokenOfBits(m, uint64(math.Float32bits(v)))}
		}
		return num(int(v), ok)
	case "float64":
		var v float64
		var ok bool
		if acc {
			v, ok = txn.Float64(name).Get()
		} else {
			v, ok = r.Float64(name)
		}
		if tok {
			return bits(math.Float64bits(v), ok, f64Tokens)
		}
		return num(int(v), ok)
	}
	panic("ReadRow: repr " + d.Repr)
}

func (c *Coll) fromAny(d ColDesc, v any) any { return c.narrow(d, c.fromAnyRaw(d, v)) }

func (c *Coll) fromAnyRaw(d ColDesc, v any) any {
	tokBits := func(b uint64) any {
		switch d.Repr {
		case "float64":
			return tokenOfBits(f64Tokens, b)
		case "float32":
			m := map[string]uint64{}
			for k, x := range f32Tokens {
				m[k] = uint64(x)
			}
			return tokenOfBits(m, b)
		}
		return tokenOfBits(intTokens(d.Repr), b)
	}
	var asInt int
	var bitsv uint64
	switch x := v.(type) {
	case bool:
		return x
	case string:
		switch {
		case d.Kind == "str":
			return StringToSeq(x)
		case d.Repr == "enum":
			return tokenOfString(EnumTokens, x)
		case d.Kind == "key":
			return tokenOfString(KeyTokens, x)
		}
		return tokenOfString(StringTokens, x)
	case *Rec:
		return int(x.V)
	case *RecVar:
		if d.Kind == "str" {
			return StringToSeq(x.S)
		}
		return tokenOfString(StringTokens, x.S)
	case int:
		asInt, bitsv = x, uint64(x)
	case int16:
		asInt, bitsv = int(x), uint64(uint16(x))
	case int32:
		asInt, bitsv = int(x), uint64(uint32(x))
	case int64:
		asInt, bitsv = int(x), uint64(x)
	case uint:
		asInt, bitsv = int(x), uint64(x)
	case uint16:
		asInt, bitsv = int(x), uint64(x)
	case uint32:
		asInt, bitsv = int(x), uint64(x)
	case uint64:
		asInt, bitsv = int(x), x
	case float32:
		asInt, bitsv = int(x), uint64(math.Float32bits(x))
	case float64:
		asInt, bitsv = int(x), math.Float64bits(x)
	default:
		return fmt.Sprintf("unk:%T", v)
	}
	if d.Kind == "tok" {
		return tokBits(bitsv)
	}
	return asInt
}

// ---- recording logger ------------------------------------------------------------------------

// Stored is one commit as it reached the logger.
type Stored struct {
	ID    uint64
	Chunk commit.Chunk
	Bulk  bool
	Clone commit.Commit // what a real commit.Channel delivered for it (transport "chan")
}

// RecLogger is the commit.Logger installed on every collection. The store calls Append inside the
// block's write latch, after the change and before anyone else can see it: the linearization point.
// Every commit is also pushed through a real commit.Channel (transport "chan") or appended to a real
// commit.Log file (transport "log"); replicas are fed from what those deliver.
type RecLogger struct {
	c         *Coll
	transport string
	mu        sync.Mutex
	stored    []Stored
	file      *commit.Log
	fileName  string
	fromFile  []commit.Commit
	bulkIds   []uint64
	Gate      func(c commit.Commit) // optional: called after logging, still inside the latch
}

func newRecLogger(c *Coll, transport string) *RecLogger {
	l := &RecLogger{c: c, transport: transport}
	if transport == "log" {
		f, err := os.CreateTemp("", "verif_stream_*.log")
		if err != nil {
			panic(err)
		}
		l.fileName = f.Name()
		l.file = commit.Open(f)
	}
	return l
}

func (l *RecLogger) Close() {
	if l.file != nil {
		l.file.Close()
		os.Remove(l.fileName)
		l.file = nil
	}
}

func (l *RecLogger) Append(cm commit.Commit) error {
	c := l.c
	w := c.W
	st := Stored{ID: cm.ID, Chunk: cm.Chunk, Bulk: w.Bulk}
	var chid uint64
	if l.transport == "chan" {
		ch := make(commit.Channel, 1)
		ch.Append(cm)
		st.Clone = <-ch
		chid = st.Clone.ID
	} else {
		if err := l.file.Append(cm); err != nil {
			panic(err)
		}
		chid = cm.ID
	}
	l.mu.Lock()
	l.stored = append(l.stored, st)
	if w.Bulk {
		l.bulkIds = append(l.bulkIds, cm.ID)
	}
	l.mu.Unlock()
	if w.Bulk {
		c.takeFired()
		return nil
	}
	ops := map[string][]Ev{}
	runs := [][2]int{}
	for _, u := range cm.Updates {
		dec := c.decode(u, cm.Chunk)
		if u.Column == "row" && c.Restoring {
			// a restored block lists every occupied row: untracked ones are summarised as runs
			var kept []Ev
			for _, e := range dec {
				o := e["o"].(int)
				if e["k"] != "ins" || w.IsTracked(uint32(o)) {
					kept = append(kept, e)
				} else if n := len(runs); n > 0 && runs[n-1][1] == o-1 {
					runs[n-1][1] = o
				} else {
					runs = append(runs, [2]int{o, o})
				}
			}
			dec = kept
		}
		if d, ok := c.Desc(u.Column); ok && d.Kind == "key" && c.Restoring {
			// filler rows of a keyed collection carry a key of their own ("f<n>") which the model
			// does not track: their puts are part of the runs above
			var kept []Ev
			for _, e := range dec {
				v, _ := e["v"].(string)
				if w.IsTracked(uint32(e["o"].(int))) || e["k"] != "put" || !strings.HasPrefix(v, "unk:66") {
					kept = append(kept, e)
				}
			}
			dec = kept
		}
		if len(dec) > 0 {
			ops[u.Column] = dec
		}
	}
	actor := w.T.Actor()
	w.T.Log(Ev{"e": "apply", "t": actor, "c": c.Name, "b": int(cm.Chunk), "id": cm.ID, "chid": chid,
		"ops": ops, "fired": c.takeFired(), "runs": runs})
	if w.Par {
		// real parallelism (no scheduler, no hook): the release of the latch is logged here, still inside it, so that
		// the trace keeps the apply order of each block; nothing of this transaction touches the block after this point
		w.T.Log(Ev{"e": "after", "t": actor})
	}
	if l.Gate != nil {
		l.Gate(cm)
	}
	return nil
}

// Deliver returns the i-th commit (0-based) as the transport delivers it to a consumer. Replay
// consumes the buffers it is given, so every call hands out a fresh copy.
func (l *RecLogger) Deliver(i int) (commit.Commit, error) {
	l.mu.Lock()
	defer l.mu.Unlock()
	if l.transport == "chan" {
		src := l.stored[i].Clone
		cp := src.Clone()
		cp.ID = src.ID
		return cp, nil
	}
	// re-read the whole file (every call: the buffers of earlier results have been consumed)
	f, err := os.Open(l.fileName)
	if err != nil {
		return commit.Commit{}, err
	}
	defer f.Close()
	var out commit.Commit
	n := 0
	err = commit.Open(f).Range(func(cm commit.Commit) error {
		if n == i {
			out = cm
		}
		n++
		return nil
	})
	if err != nil {
		return out, err
	}
	if n <= i {
		return out, fmt.Errorf("log file holds %d commits, want index %d", n, i)
	}
	return out, nil
}

func (l *RecLogger) TakeBulkIds() []uint64 {
	l.mu.Lock()
	defer l.mu.Unlock()
	out := l.bulkIds
	l.bulkIds = nil
	return out
}

func (l *RecLogger) Stored() []Stored {
	l.mu.Lock()
	defer l.mu.Unlock()
	return append([]Stored(nil), l.stored...)
}

// decode lists the operations of one block of one buffer as the commit shows them now.
func (c *Coll) decode(u *commit.Buffer, chunk commit.Chunk) (out []Ev) {
	d, isCol := c.Desc(u.Column)
	if u.Column == "expire" && !isCol {
		d, isCol = ColDesc{Name: "expire", Kind: "int", Repr: "int64"}, true
	}
	r := commit.NewReader()
	r.Range(u, chunk, func(r *commit.Reader) {
		for r.Rewind(); r.Next(); {
			o := int(r.Index())
			switch {
			case r.Type == commit.Skip:
			case u.Column == "row" && r.Type == commit.Insert:
				out = append(out, Ev{"k": "ins", "o": o, "v": 0})
			case u.Column == "row" && r.Type == commit.Delete:
				out = append(out, Ev{"k": "del", "o": o, "v": 0})
			case !isCol:
				out = append(out, Ev{"k": "unknown-column", "o": o, "v": 0})
			case d.Kind == "bool":
				out = append(out, Ev{"k": "put", "o": o, "v": r.Type == commit.PutTrue})
			case r.Type == commit.Put:
				out = append(out, Ev{"k": "put", "o": o, "v": c.decodeValue(d, r)})
			case r.Type == commit.Merge:
				out = append(out, Ev{"k": "mrg", "o": o, "v": c.decodeValue(d, r)})
			default:
				out = append(out, Ev{"k": fmt.Sprintf("op%d", r.Type), "o": o, "v": 0})
			}
		}
	})
	return
}

func (c *Coll) decodeValue(d ColDesc, r *commit.Reader) any {
	return c.narrow(d, c.decodeValueRaw(d, r))
}

func (c *Coll) decodeValueRaw(d ColDesc, r *commit.Reader) any {
	size := len(r.Bytes())
	switch d.Kind {
	case "str":
		return StringToSeq(r.String())
	case "key":
		return tokenOfString(KeyTokens, r.String())
	case "enum":
		return tokenOfString(EnumTokens, r.String())
	case "int":
		switch d.Repr {
		case "float32":
			return int(r.Float32())
		case "float64":
			return int(r.Float64())
		case "record":
			var x Rec
			if x.UnmarshalBinary(r.Bytes()) != nil {
				return -1
			}
			return int(x.V)
		case "int16":
			return int(r.Int16())
		case "int32":
			return int(r.Int32())
		case "int", "int64":
			return int(r.Int64())
		default:
			return int(r.Uint())
		}
	case "tok":
		switch d.Repr {
		case "string", "recordvar":
			return tokenOfString(StringTokens, r.String())
		case "float64":
			return tokenOfBits(f64Tokens, r.Uint64())
		case "float32":
			m := map[string]uint64{}
			for k, x := range f32Tokens {
				m[k] = uint64(x)
			}
			return tokenOfBits(m, uint64(r.Uint32()))
		default:
			switch size {
			case 2:
				return tokenOfBits(intTokens(d.Repr), uint64(r.Uint16()))
			case 4:
				return tokenOfBits(intTokens(d.Repr), uint64(r.Uint32()))
			case 8:
				return tokenOfBits(intTokens(d.Repr), r.Uint64())
			}
		}
	}
	return fmt.Sprintf("undecodable:%s/%s/%d", d.Kind, d.Repr, size)
}
