package h

import (
	"encoding/binary"
	"fmt"
	"math"
	"strings"

	"github.com/kelindar/column"
	"runtime"
	"sync/atomic"
	"time"
)

// ColDesc describes a data column: what the specification knows (Kind, Merge) and how it is
// realised in Go (Repr).
//
//	Kind int  : small non-negative integers; Repr one of the ten numeric types or "record" (8 bytes)
//	Kind str  : sequences of small integers <-> strings of letters; Repr "string" or "recordvar"
//	Kind tok  : opaque tokens with an exact byte/bit meaning, put only; Repr any
//	Kind bool : Repr "bool"
//	Kind key  : Repr "key"
type ColDesc struct {
	Name  string `json:"n"`
	Kind  string `json:"k"`
	Merge string `json:"m"`
	Repr  string `json:"repr"`
}

var NumericReprs = []string{"int", "int16", "int32", "int64", "uint", "uint16", "uint32", "uint64", "float32", "float64"}

// ---- records -------------------------------------------------------------------------------

// Rec is a binary record holding one integer in 8 bytes (fixed width, so merges rewrite in place).
type Rec struct{ V int64 }

func (r *Rec) MarshalBinary() ([]byte, error) {
	var b [8]byte
	binary.BigEndian.PutUint64(b[:], uint64(r.V))
	return b[:], nil
}
func (r *Rec) UnmarshalBinary(b []byte) error {
	if len(b) == 0 { // an absent value merges like zero
		r.V = 0
		return nil
	}
	if len(b) != 8 {
		return fmt.Errorf("rec: bad length %d", len(b))
	}
	r.V = int64(binary.BigEndian.Uint64(b))
	return nil
}

// RecVar is a binary record holding a string verbatim (variable width).
type RecVar struct{ S string }

func (r *RecVar) MarshalBinary() ([]byte, error) { return []byte(r.S), nil }
func (r *RecVar) UnmarshalBinary(b []byte) error { r.S = string(b); return nil }

// ---- merge functions -----------------------------------------------------------------------

type number interface {
	~int | ~int16 | ~int32 | ~int64 | ~uint | ~uint16 | ~uint32 | ~uint64 | ~float32 | ~float64
}

// MergeYield makes every user-supplied merge function give up the processor and take some tens of microseconds (set by the
// real-parallelism family: a user's merge function may take any time, and other blocks commit meanwhile).
var MergeYield int32

func mergeYield() {
	if atomic.LoadInt32(&MergeYield) != 0 {
		runtime.Gosched()
		time.Sleep(20 * time.Microsecond)
	}
}

func mergeOf[T number](m string) func(v, d T) T {
	switch m {
	case "affine":
		return func(v, d T) T { mergeYield(); return 2*v + d }
	case "replace":
		return func(v, d T) T { mergeYield(); return d }
	case "sat":
		return func(v, d T) T {
			mergeYield()
			if v+d > 8 {
				return 8
			}
			return v + d
		}
	}
	return nil // "add" is the library's default
}

// MakeColumn builds the library column for a descriptor.
func MakeColumn(d ColDesc) column.Column {
	switch d.Repr {
	case "int":
		if f := mergeOf[int](d.Merge); f != nil {
			return column.ForInt(column.WithMerge(f))
		}
		return column.ForInt()
	case "int16":
		if f := mergeOf[int16](d.Merge); f != nil {
			return column.ForInt16(column.WithMerge(f))
		}
		return column.ForInt16()
	case "int32":
		if f := mergeOf[int32](d.Merge); f != nil {
			return column.ForInt32(column.WithMerge(f))
		}
		return column.ForInt32()
	case "int64":
		if f := mergeOf[int64](d.Merge); f != nil {
			return column.ForInt64(column.WithMerge(f))
		}
		return column.ForInt64()
	case "uint":
		if f := mergeOf[uint](d.Merge); f != nil {
			return column.ForUint(column.WithMerge(f))
		}
		return column.ForUint()
	case "uint16":
		if f := mergeOf[uint16](d.Merge); f != nil {
			return column.ForUint16(column.WithMerge(f))
		}
		return column.ForUint16()
	case "uint32":
		if f := mergeOf[uint32](d.Merge); f != nil {
			return column.ForUint32(column.WithMerge(f))
		}
		return column.ForUint32()
	case "uint64":
		if f := mergeOf[uint64](d.Merge); f != nil {
			return column.ForUint64(column.WithMerge(f))
		}
		return column.ForUint64()
	case "float32":
		if f := mergeOf[float32](d.Merge); f != nil {
			return column.ForFloat32(column.WithMerge(f))
		}
		return column.ForFloat32()
	case "float64":
		if f := mergeOf[float64](d.Merge); f != nil {
			return column.ForFloat64(column.WithMerge(f))
		}
		return column.ForFloat64()
	case "record":
		switch d.Merge {
		case "add":
			return column.ForRecord(func() *Rec { return new(Rec) }, column.WithMerge(func(v, x *Rec) *Rec { mergeYield(); v.V += x.V; return v }))
		case "affine":
			return column.ForRecord(func() *Rec { return new(Rec) }, column.WithMerge(func(v, x *Rec) *Rec { mergeYield(); v.V = 2*v.V + x.V; return v }))
		case "sat":
			return column.ForRecord(func() *Rec { return new(Rec) }, column.WithMerge(func(v, x *Rec) *Rec {
				mergeYield()
				if v.V += x.V; v.V > 8 {
					v.V = 8
				}
				return v
			}))
		}
		return column.ForRecord(func() *Rec { return new(Rec) })
	case "recordvar":
		if d.Merge == "concat" {
			return column.ForRecord(func() *RecVar { return new(RecVar) }, column.WithMerge(func(v, x *RecVar) *RecVar { mergeYield(); v.S += x.S; return v }))
		}
		return column.ForRecord(func() *RecVar { return new(RecVar) })
	case "string":
		if d.Merge == "concat" {
			return column.ForString(column.WithMerge(func(v, x string) string { mergeYield(); return v + x }))
		}
		return column.ForString()
	case "enum":
		return column.ForEnum()
	case "bool":
		return column.ForBool()
	case "key":
		return column.ForKey()
	}
	panic("MakeColumn: unknown repr " + d.Repr)
}

// ---- kind str: sequences of small integers <-> strings of letters ---------------------------

func SeqToString(v any) string {
	var sb strings.Builder
	switch xs := v.(type) {
	case []int:
		for _, x := range xs {
			sb.WriteByte(byte('a' + x))
		}
	case []any:
		for _, x := range xs {
			sb.WriteByte(byte('a' + toInt(x)))
		}
	default:
		panic(fmt.Sprintf("SeqToString: %T", v))
	}
	return sb.String()
}

func StringToSeq(s string) []int {
	out := make([]int, len(s))
	for i := 0; i < len(s); i++ {
		out[i] = int(s[i]) - 'a'
	}
	return out
}

// ---- kind tok: tokens with an exact meaning -------------------------------------------------

func rep(n int) string { return strings.Repeat("x", n) }

// StringTokens covers lengths around the varint / 16-bit boundaries, non UTF-8 and NUL bytes.
var StringTokens = map[string]string{
	"empty": "", "a": "a", "b": "b", "nul": "\x00", "badutf8": "\xff\xfe\x80", "len127": rep(127), "len128": rep(128),
	"len255": rep(255), "len256": rep(256), "len65535": rep(65535), "uni": "héllo, 世界",
}

// EnumTokens: short strings; k9870 / k53003 have the same 32-bit xxh3 (found by a birthday search).
var EnumTokens = map[string]string{"e1": "e1", "e2": "e2", "e3": "e3", "empty": "", "k9870": "k9870", "k53003": "k53003", "long": rep(300)}

var KeyTokens = map[string]string{"k0": "", "k1": "k1", "k2": "k2", "k3": "k3", "k4": "k4",
	"k9870": "k9870", "k53003": "k53003"} // (the last two have the same 32-bit xxh3: two keys all the same)

var f64Tokens = map[string]uint64{
	"zero": 0, "negzero": 1 << 63, "one": math.Float64bits(1), "nan1": 0x7ff8000000000001, "nan2": 0x7ff0000000000bad,
	"inf": math.Float64bits(math.Inf(1)), "ninf": math.Float64bits(math.Inf(-1)), "max": math.Float64bits(math.MaxFloat64),
	"sub": 1, "pi": math.Float64bits(math.Pi),
}
var f32Tokens = map[string]uint32{
	"zero": 0, "negzero": 1 << 31, "one": math.Float32bits(1), "nan1": 0x7fc00001, "nan2": 0x7f800bad,
	"inf": math.Float32bits(float32(math.Inf(1))), "max": math.Float32bits(math.MaxFloat32), "sub": 1,
}

// intTokens gives, per integer repr, tokens for the extremes of the type (as the 64-bit pattern of the value).
func intTokens(repr string) map[string]uint64 {
	switch repr {
	case "int", "int64":
		return map[string]uint64{"zero": 0, "one": 1, "m1": ^uint64(0), "min": 1 << 63, "max": 1<<63 - 1, "mid": 0x0123456789abcdef}
	case "int32":
		return map[string]uint64{"zero": 0, "one": 1, "m1": uint64(uint32(0xffffffff)), "min": 0x80000000, "max": 0x7fffffff, "mid": 0x01234567}
	case "int16":
		return map[string]uint64{"zero": 0, "one": 1, "m1": 0xffff, "min": 0x8000, "max": 0x7fff, "mid": 0x0123}
	case "uint":
		// n16 / n32: values whose top bit is set in 16 / 32 bits - the untyped writers are handed them as uint16 / uint32 (a uint
		// column reads values of any width)
		return map[string]uint64{"zero": 0, "one": 1, "max": ^uint64(0), "high": 1 << 63, "mid": 0x0123456789abcdef, "n16": 0x8000, "n32": 0x80000000}
	case "uint64":
		return map[string]uint64{"zero": 0, "one": 1, "max": ^uint64(0), "high": 1 << 63, "mid": 0x0123456789abcdef}
	case "uint32":
		return map[string]uint64{"zero": 0, "one": 1, "max": 0xffffffff, "high": 0x80000000, "mid": 0x01234567}
	case "uint16":
		return map[string]uint64{"zero": 0, "one": 1, "max": 0xffff, "high": 0x8000, "mid": 0x0123}
	}
	return nil
}

// TokenNames lists the tokens available for a tok column of the given repr.
func TokenNames(repr string) []string {
	var m []string
	add := func(k string) { m = append(m, k) }
	switch repr {
	case "string", "recordvar":
		for k := range StringTokens {
			add(k)
		}
	case "enum":
		for k := range EnumTokens {
			add(k)
		}
	case "key":
		for k := range KeyTokens {
			add(k)
		}
	case "float64":
		for k := range f64Tokens {
			add(k)
		}
	case "float32":
		for k := range f32Tokens {
			add(k)
		}
	default:
		for k := range intTokens(repr) {
			add(k)
		}
	}
	sortStrings(m)
	return m
}

func tokenOfBits(m map[string]uint64, bits uint64) string {
	for k, v := range m {
		if v == bits {
			return k
		}
	}
	return fmt.Sprintf("unk:%016x", bits)
}

func tokenOfString(m map[string]string, s string) string {
	for k, v := range m {
		if v == s {
			return k
		}
	}
	if len(s) > 24 {
		return fmt.Sprintf("unk:%x...(%d)", s[:24], len(s))
	}
	return fmt.Sprintf("unk:%x", s)
}
