package h

import (
	"bytes"
	"fmt"
	"math/rand"
	"runtime/debug"
	"sync"
	"sync/atomic"
	"time"

	"github.com/kelindar/column"
	"github.com/kelindar/column/commit"
)

// RunRace: the mixed workload of C18, meant to run in a binary built with -race (the race detector's
// reports are collected by the orchestrator and judged against spec/Locks.tla's table of shared
// variables). The workload grows the collection across blocks, reuses offsets, runs snapshots,
// restores into other collections, index builds and drops, a keyed collection with upserts, a
// replica fed from a channel, beside writers and readers. A watchdog reports non-termination.
func RunRace(seed int64, dur time.Duration) (out []Ev) {
	w := NewWorld()
	defer func() {
		if r := recover(); r != nil {
			w.T.Log(Ev{"e": "panic", "t": "m", "what": fmt.Sprint(r), "stack": string(debug.Stack())})
			out = w.T.Finish()
		}
	}()
	ch := make(commit.Channel, 1<<16)
	P := column.NewCollection(column.Options{Capacity: 64, Writer: ch, Vacuum: 5 * time.Millisecond})
	defer P.Close()
	R := column.NewCollection(column.Options{Capacity: 64, Vacuum: time.Hour})
	defer R.Close()
	K := column.NewCollection(column.Options{Capacity: 64, Vacuum: time.Hour})
	defer K.Close()
	for _, c := range []*column.Collection{P, R} {
		c.CreateColumn("a", column.ForInt64())
		c.CreateColumn("f", column.ForFloat64())
		c.CreateColumn("s", column.ForString())
		c.CreateColumn("e", column.ForEnum())
		c.CreateColumn("b", column.ForBool())
		// user-supplied merge functions on a record and on a string column (blocks commit in parallel: so do their merges)
		c.CreateColumn("r", column.ForRecord(func() *Rec { return new(Rec) }, column.WithMerge(func(v, x *Rec) *Rec { v.V += x.V; return v })))
		c.CreateColumn("m", column.ForString(column.WithMerge(func(v, d string) string {
			if len(v) > 6 {
				return d
			}
			return v + d
		})))
		c.CreateIndex("big", "a", func(r column.Reader) bool { return r.Int() >= 5 })
		c.CreateSortIndex("sorted", "s")
	}
	K.CreateColumn("k", column.ForKey())
	K.CreateColumn("a", column.ForInt64())
	stop, crashed := int32(0), int32(0)
	var ops int64
	var wg sync.WaitGroup
	spawn := func(n int, f func(lr *rand.Rand)) {
		for g := 0; g < n; g++ {
			wg.Add(1)
			lr := rand.New(rand.NewSource(seed*101 + int64(wg_counter())))
			go func() {
				defer wg.Done()
				for atomic.LoadInt32(&stop) == 0 {
					func() {
						// a panic of the library under concurrent use is recorded with its stack (the orchestrator
						// maps it to a shared variable of spec/Locks.tla, like a race report) and the goroutine goes on
						defer func() {
							if r := recover(); r != nil {
								w.T.Log(Ev{"e": "crash", "what": fmt.Sprint(r), "stack": string(debug.Stack())})
								// the panic unwound through the library's critical sections (latches are not released by
								// defers): everything else may now block forever, which is the panic's doing; stop here
								atomic.StoreInt32(&crashed, 1)
								atomic.StoreInt32(&stop, 1)
							}
						}()
						f(lr)
					}()
					atomic.AddInt64(&ops, 1)
				}
			}()
		}
	}
	// three full blocks from the start: commits to different blocks run in parallel (only their block latches differ)
	P.Query(func(txn *column.Txn) error {
		for i := 0; i < 3*16384; i++ {
			txn.Insert(func(r column.Row) error {
				r.SetInt64("a", int64(i%10))
				if i%2 == 0 {
					r.SetString("s", "x")
				}
				return nil
			})
		}
		return nil
	})
	maxRow := func() uint32 {
		if n := uint32(P.Count() + 64); n > 3*16384 {
			return n
		}
		return 3*16384 + 64
	}
	// inserters: grow across blocks (each commit of a fresh block grows every column)
	spawn(2, func(lr *rand.Rand) {
		P.Query(func(txn *column.Txn) error {
			for i := 0; i < 300; i++ {
				txn.Insert(func(r column.Row) error {
					r.SetInt64("a", int64(lr.Intn(10)))
					if lr.Intn(2) == 0 {
						r.SetString("s", "x")
					}
					if lr.Intn(8) == 0 {
						r.SetTTL(time.Duration(1+lr.Intn(20)) * time.Millisecond)
					}
					return nil
				})
			}
			return nil
		})
	})
	// aborted transactions: inserts that are rolled back, inserts whose callback fails (offset released at once)
	spawn(2, func(lr *rand.Rand) {
		P.Query(func(txn *column.Txn) error {
			for i := 0; i < 1+lr.Intn(8); i++ {
				txn.Insert(func(r column.Row) error {
					r.SetInt64("a", 3)
					if lr.Intn(4) == 0 {
						return fmt.Errorf("refused")
					}
					return nil
				})
			}
			if lr.Intn(4) != 0 {
				return fmt.Errorf("abort")
			}
			return nil
		})
		P.Query(func(txn *column.Txn) error { txn.Count(); return nil })
	})
	// single-row inserts and deletes through the collection's shortcuts
	spawn(1, func(lr *rand.Rand) {
		o, err := P.Insert(func(r column.Row) error { r.SetInt64("a", 1); r.SetString("s", "yy"); return nil })
		if err == nil && lr.Intn(2) == 0 {
			P.DeleteAt(o)
		}
		P.Count()
	})
	// deleters: offsets are reused
	spawn(1, func(lr *rand.Rand) {
		P.Query(func(txn *column.Txn) error {
			n := 0
			txn.With("big").Range(func(idx uint32) {
				if n < 50 && lr.Intn(3) == 0 {
					txn.DeleteAt(idx)
					n++
				}
			})
			return nil
		})
	})
	// writers
	spawn(3, func(lr *rand.Rand) {
		o := uint32(lr.Intn(int(maxRow())))
		P.QueryAt(o, func(r column.Row) error {
			r.MergeInt64("a", 1)
			r.SetFloat64("f", 1.5)
			r.SetEnum("e", []string{"x", "y", "z"}[lr.Intn(3)])
			r.SetBool("b", lr.Intn(2) == 0)
			r.MergeRecord("r", &Rec{V: 1})
			r.MergeString("m", "ab")
			return nil
		})
	})
	// merges into rows of two or three different blocks in one transaction, beside the same from others
	spawn(2, func(lr *rand.Rand) {
		n := int(maxRow())
		P.Query(func(txn *column.Txn) error {
			for k := 0; k < 3; k++ {
				txn.QueryAt(uint32(lr.Intn(n)), func(r column.Row) error {
					r.MergeRecord("r", &Rec{V: 2})
					r.MergeString("m", "c")
					r.MergeInt64("a", 1)
					return nil
				})
			}
			return nil
		})
	})
	// point readers and filtered iteration, aggregates
	spawn(3, func(lr *rand.Rand) {
		o := uint32(lr.Intn(int(maxRow())))
		P.QueryAt(o, func(r column.Row) error {
			r.Int64("a")
			r.String("s")
			r.Enum("e")
			r.Bool("b")
			r.Record("r")
			r.String("m")
			return nil
		})
	})
	spawn(2, func(lr *rand.Rand) {
		P.Query(func(txn *column.Txn) error {
			txn.With("a").Without("b").WithInt("a", func(v int64) bool { return v > 2 })
			txn.Int64("a").Sum()
			n := 0
			txn.Range(func(idx uint32) { n++ })
			return nil
		})
		P.Query(func(txn *column.Txn) error {
			n := 0
			txn.Ascend("sorted", func(idx uint32) { n++ })
			return nil
		})
	})
	// slow readers: callbacks that stay inside a block's read latch for milliseconds, so that committers queue between the
	// steps of the commit protocol (capacity, latch, id, apply) while others grow the collection
	spawn(3, func(lr *rand.Rand) {
		n := uint32(P.Count())
		o := uint32(0)
		switch lr.Intn(3) {
		case 1:
			o = n - 1 - uint32(lr.Intn(64)) // the tail: the block that is being filled right now
		case 2:
			o = uint32(lr.Intn(int(n)))
		}
		P.QueryAt(o, func(r column.Row) error {
			time.Sleep(time.Duration(1+lr.Intn(3)) * time.Millisecond)
			return nil
		})
	})
	// snapshots, restored into other collections
	spawn(1, func(lr *rand.Rand) {
		var buf bytes.Buffer
		if err := P.Snapshot(&buf); err == nil {
			S := column.NewCollection(column.Options{Capacity: 64, Vacuum: time.Hour})
			S.CreateColumn("a", column.ForInt64())
			S.CreateColumn("f", column.ForFloat64())
			S.CreateColumn("s", column.ForString())
			S.CreateColumn("e", column.ForEnum())
			S.CreateColumn("b", column.ForBool())
			S.Restore(&buf)
			S.Close()
		}
		time.Sleep(20 * time.Millisecond)
	})
	// index builds and drops beside the writers (odd seeds only: the known races on the registry and on index
	// back-fill end many such runs early with a panic, the even seeds run their full time without them)
	builders := 0
	if seed%2 != 0 {
		builders = 1
	}
	spawn(builders, func(lr *rand.Rand) {
		name := fmt.Sprintf("ix%d", lr.Intn(3))
		if P.CreateIndex(name, "a", func(r column.Reader) bool { return r.Int()%2 == 0 }) == nil {
			P.Query(func(txn *column.Txn) error { txn.With(name).Count(); return nil })
			P.DropIndex(name)
		}
		time.Sleep(5 * time.Millisecond)
	})
	// the replica
	spawn(1, func(lr *rand.Rand) {
		select {
		case cm := <-ch:
			R.Replay(cm)
		case <-time.After(5 * time.Millisecond):
		}
	})
	// keyed collection: concurrent upserts and deletes of a few keys
	spawn(2, func(lr *rand.Rand) {
		key := fmt.Sprintf("k%d", lr.Intn(6))
		if lr.Intn(3) == 0 {
			K.DeleteKey(key)
		} else {
			K.UpsertKey(key, func(r column.Row) error { r.MergeInt64("a", 1); return nil })
		}
		K.QueryKey(key, func(r column.Row) error { r.Int64("a"); return nil })
	})
	for t0 := time.Now(); time.Since(t0) < dur && atomic.LoadInt32(&stop) == 0; {
		time.Sleep(10 * time.Millisecond)
	}
	atomic.StoreInt32(&stop, 1)
	done := make(chan struct{})
	go func() { wg.Wait(); close(done) }()
	select {
	case <-done:
		w.T.Log(Ev{"e": "stress", "ops": int(atomic.LoadInt64(&ops)), "rows": P.Count(), "terminated": true, "builders": builders})
	case <-time.After(func() time.Duration {
		if atomic.LoadInt32(&crashed) == 1 {
			return 2 * time.Second
		}
		return 60 * time.Second
	}()):
		if atomic.LoadInt32(&crashed) == 0 {
			w.T.Log(Ev{"e": "hang", "t": "stress", "after": "the workload did not terminate"})
		} else {
			w.T.Log(Ev{"e": "stress", "ops": int(atomic.LoadInt64(&ops)), "rows": 0, "terminated": false})
		}
	}
	return w.T.Finish()
}

var wgc int64

func wg_counter() int64 { return atomic.AddInt64(&wgc, 1) }

// RunRaceGrow: the schedule a stress run practically never produces in a form the race detector can report (any unrelated
// commit in between orders the two accesses through the commit-id counter): a commit to an existing block and a commit that
// grows the collection into a new block, each stalled at its block latch by a slow reader, and nothing else running. The
// first committer has passed the capacity step when the second one grows the collection; it then takes its latch and
// finishes while the second is still waiting for its own.
func RunRaceGrow(seed int64) (out []Ev) {
	w := NewWorld()
	defer func() {
		if r := recover(); r != nil {
			w.T.Log(Ev{"e": "panic", "t": "m", "what": fmt.Sprint(r), "stack": string(debug.Stack())})
			out = w.T.Finish()
		}
	}()
	var ops int64
	for round := 0; round < 6; round++ {
		P := column.NewCollection(column.Options{Capacity: 64, Vacuum: time.Hour})
		P.CreateColumn("a", column.ForInt64())
		P.CreateColumn("s", column.ForString())
		blocks := 1 + round%2 // the collection is full up to a block boundary
		P.Query(func(txn *column.Txn) error {
			for i := 0; i < blocks*16384; i++ {
				txn.Insert(func(r column.Row) error { r.SetInt64("a", 1); return nil })
			}
			return nil
		})
		last := uint32(blocks * 16384) // the first offset of the block that does not exist yet
		var wg sync.WaitGroup
		run := func(after time.Duration, f func()) {
			wg.Add(1)
			go func() {
				defer wg.Done()
				defer func() {
					if r := recover(); r != nil {
						w.T.Log(Ev{"e": "crash", "what": fmt.Sprint(r), "stack": string(debug.Stack())})
					}
				}()
				time.Sleep(after)
				f()
				atomic.AddInt64(&ops, 1)
			}()
		}
		hold := func(o uint32, d time.Duration) func() {
			return func() { P.QueryAt(o, func(column.Row) error { time.Sleep(d); return nil }) }
		}
		if round >= 4 {
			// the other order: the growth comes AFTER the apply. The committer's last synchronisation with the collection
			// (the collection lock around the fill read) precedes its apply, so only the column lock orders the apply
			// before the growth. B holds its transaction (taken from the pool before A returns its own) open over A's commit.
			run(0, func() {
				P.Query(func(txn *column.Txn) error {
					txn.Insert(func(r column.Row) error { r.SetInt64("a", 2); r.SetString("s", "y"); return nil })
					time.Sleep(150 * time.Millisecond)
					return nil
				})
			})
			run(50*time.Millisecond, func() {
				P.QueryAt(0, func(r column.Row) error { r.MergeInt64("a", 1); r.SetString("s", "x"); return nil })
			})
		} else {
			run(0, hold(0, 300*time.Millisecond))    // a slow reader in block 0
			run(0, hold(last, 600*time.Millisecond)) // and one on the latch of the block to come
			run(60*time.Millisecond, func() {        // A: a commit to block 0, queues behind the reader
				P.QueryAt(0, func(r column.Row) error { r.MergeInt64("a", 1); r.SetString("s", "x"); return nil })
			})
			run(150*time.Millisecond, func() { // B: grows the collection into the next block, queues behind the other reader
				P.Insert(func(r column.Row) error { r.SetInt64("a", 2); return nil })
			})
		}
		if round < 2 { // a snapshot beside both; the later rounds go without it: its read latches order A's apply after B's growth
			run(200*time.Millisecond, func() {
				var buf bytes.Buffer
				P.Snapshot(&buf)
			})
		}
		done := make(chan struct{})
		go func() { wg.Wait(); close(done) }()
		select {
		case <-done:
		case <-time.After(30 * time.Second):
			w.T.Log(Ev{"e": "hang", "t": "stress", "after": "a commit beside growth did not terminate"})
			return w.T.Finish()
		}
		P.Close()
	}
	w.T.Log(Ev{"e": "stress", "ops": int(atomic.LoadInt64(&ops)), "rows": 0, "terminated": true, "builders": 0})
	return w.T.Finish()
}
