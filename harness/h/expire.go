package h

import (
	"bytes"
	"fmt"
	"math/rand"
	"runtime"
	"runtime/debug"
	"strings"
	"sync"
	"time"

	"github.com/kelindar/column"
	"github.com/kelindar/column/commit"
)

// expLogger is the in-latch observer of the expiry family: every committed insert, TTL write and
// row deletion with a timestamp taken inside Append (milliseconds since the start of the scenario).
type expLogger struct {
	base   int // inserts below this offset are the value-less rows of the prologue: not logged (a removal of one is)
	w      *World
	name   string
	start  time.Time
	mu     sync.Mutex
	stored []commit.Commit
}

func (l *expLogger) ms(t time.Time) int { return int(t.Sub(l.start) / time.Millisecond) }

func (l *expLogger) Append(cm commit.Commit) error {
	now := l.ms(time.Now())
	r := commit.NewReader()
	for _, u := range cm.Updates {
		switch u.Column {
		case "row":
			r.Range(u, cm.Chunk, func(r *commit.Reader) {
				for r.Next() {
					switch r.Type {
					case commit.Insert:
						if int(r.Index()) < l.base {
							continue
						}
						l.w.T.Log(Ev{"e": "xins", "c": l.name, "o": int(r.Index()), "at": now})
					case commit.Delete:
						l.w.T.Log(Ev{"e": "xdel", "c": l.name, "o": int(r.Index()), "at": now})
					}
				}
			})
		}
	}
	for _, u := range cm.Updates {
		if u.Column == "expire" {
			r.Range(u, cm.Chunk, func(r *commit.Reader) {
				for r.Next() {
					if r.Type == commit.Put {
						d := 0
						if v := r.Int64(); v != 0 {
							d = l.ms(time.Unix(0, v))
						}
						l.w.T.Log(Ev{"e": "xttl", "c": l.name, "o": int(r.Index()), "d": d})
					}
				}
			})
		}
	}
	l.mu.Lock()
	l.stored = append(l.stored, cm.Clone())
	l.mu.Unlock()
	return nil
}

// ExpProfile parameterises the expiry family.
type ExpProfile struct {
	Name     string
	Interval time.Duration
	Rows     int
	Bait     bool // reproduce: an extension committed between the vacuum's scan and its commit
	RunMs    int
	Base     int // value-less prologue rows below the rows of the scenario (0, or almost a block)
}

func ExpProfileFor(name string, seed int64) ExpProfile {
	r := rand.New(rand.NewSource(seed ^ 0xe8))
	return ExpProfile{Name: name, Interval: []time.Duration{time.Millisecond, 5 * time.Millisecond, 50 * time.Millisecond}[r.Intn(3)],
		Rows: 8 + r.Intn(8), Bait: r.Intn(2) == 0, RunMs: 4200, Base: []int{0, 16384 - 3 - r.Intn(6)}[r.Intn(2)]}
}

func fromVacuum() bool {
	var b [4096]byte
	n := runtime.Stack(b[:], false)
	return strings.Contains(string(b[:n]), ").vacuum(")
}

// RunExpire: rows without TTL, with short, long and extended TTLs, the real vacuum running beside
// inserts, extensions and unrelated updates; a snapshot restored and a replica fed meanwhile.
func RunExpire(seed int64, p ExpProfile) (out []Ev) {
	rnd := rand.New(rand.NewSource(seed))
	w := NewWorld()
	defer func() {
		if r := recover(); r != nil {
			w.T.Log(Ev{"e": "panic", "t": "m", "what": fmt.Sprint(r), "stack": string(debug.Stack())})
			out = w.T.Finish()
		}
	}()
	start := time.Now()
	grace := 10*int(p.Interval/time.Millisecond) + 3000
	mk := func(name string) (*column.Collection, *expLogger) {
		lg := &expLogger{w: w, name: name, start: start, base: p.Base}
		c := column.NewCollection(column.Options{Capacity: 64, Writer: lg, Vacuum: p.Interval})
		c.CreateColumn("a", column.ForInt())
		return c, lg
	}
	P, plog := mk("P")
	defer P.Close()
	if p.Base > 0 {
		// value-less rows without time-to-live up to a few offsets before the end of the first block: the rows of the scenario
		// straddle the block boundary (the cleanup works block by block). They are never removed - nobody logs their insertion,
		// a removal of one would be logged and nothing explains it
		P.Query(func(txn *column.Txn) error {
			for i := 0; i < p.Base; i++ {
				txn.Insert(func(column.Row) error { return nil })
			}
			return nil
		})
	}
	ms := func() int { return int(time.Since(start) / time.Millisecond) }
	// a time-to-live was set by a call that began at t0 and has just returned: the deadline it buffered lies between
	// (t0 + ttl) and (now + ttl), whatever the transaction did before (logged from inside the callback)
	logSet := func(o uint32, t0 time.Time, ttl time.Duration) {
		// (one millisecond of slack on either side: the library's deadline is wall-clock, these readings are monotonic)
		w.T.Log(Ev{"e": "xset", "c": "P", "o": int(o), "lo": int(t0.Sub(start)/time.Millisecond) + int(ttl/time.Millisecond) - 1,
			"hi": ms() + int(ttl/time.Millisecond) + 1})
	}
	poll := func(name string, c *column.Collection) {
		rows := []int{}
		c.Query(func(txn *column.Txn) error {
			txn.Range(func(idx uint32) {
				if int(idx) >= p.Base {
					rows = append(rows, int(idx))
				}
			})
			return nil
		})
		w.T.Log(Ev{"e": "xpoll", "c": name, "at": ms(), "grace": grace, "rows": rows})
	}
	extend := func(o uint32, by time.Duration) {
		P.Query(func(txn *column.Txn) error {
			return txn.QueryAt(o, func(column.Row) error {
				txn.TTL().Extend(by)
				return nil
			})
		})
		w.T.Log(Ev{"e": "xext", "c": "P", "o": int(o), "by": int(by / time.Millisecond)})
	}
	var bait uint32
	baitArmed := false
	var baitDeadline time.Time
	var hookMu sync.Mutex
	if p.Bait {
		// the vacuum's own transaction is stopped at commit.before (no lock held): an extension of a row it is
		// about to delete commits right there
		column.VerifYield = func(point string, txn *column.Txn, chunk uint32) {
			if point != "commit.before" || !fromVacuum() {
				return
			}
			hookMu.Lock()
			fire := baitArmed && time.Now().After(baitDeadline)
			if fire {
				baitArmed = false
			}
			hookMu.Unlock()
			if fire {
				alive := false
				P.Query(func(t2 *column.Txn) error {
					t2.Range(func(idx uint32) { alive = alive || idx == bait })
					return nil
				})
				if alive { // (the vacuum is parked right here, nobody else deletes)
					extend(bait, time.Hour)
				}
			}
		}
		defer func() { column.VerifYield = nil }()
	}
	// the first time-to-live of a row and its extension in ONE transaction (put, then merge, in one commit)
	setExtend := func(o uint32, ttl, by time.Duration) {
		P.Query(func(txn *column.Txn) error {
			return txn.QueryAt(o, func(column.Row) error {
				t0 := time.Now()
				txn.TTL().Set(ttl)
				logSet(o, t0, ttl)
				txn.TTL().Extend(by)
				return nil
			})
		})
		w.T.Log(Ev{"e": "xext", "c": "P", "o": int(o), "by": int(by / time.Millisecond)})
	}
	insertExtended := func(ttl, by time.Duration) (o uint32) {
		P.Query(func(txn *column.Txn) error {
			o, _ = txn.Insert(func(r column.Row) error {
				t0 := time.Now()
				r.SetTTL(ttl)
				logSet(r.Index(), t0, ttl)
				txn.TTL().Extend(by)
				return nil
			})
			return nil
		})
		w.T.Log(Ev{"e": "xext", "c": "P", "o": int(o), "by": int(by / time.Millisecond)})
		return
	}
	// the accessor is obtained first and used some tens of milliseconds later in the same transaction (a range over many
	// rows, slow per-row work): the time-to-live counts from the call that sets it
	lateSet := func(o uint32, gap, ttl time.Duration) {
		P.Query(func(txn *column.Txn) error {
			acc := txn.TTL()
			time.Sleep(gap)
			return txn.QueryAt(o, func(column.Row) error {
				t0 := time.Now()
				acc.Set(ttl)
				logSet(o, t0, ttl)
				return nil
			})
		})
	}
	type kind int
	var short, long, none, ext []uint32
	for i := 0; i < p.Rows; i++ {
		var ttl time.Duration
		k := rnd.Intn(7)
		if k == 6 { // an explicit "never": a zero time-to-live stores a zero deadline, which is no deadline
			o, _ := P.Insert(func(r column.Row) error { r.SetInt("a", i); r.SetTTL(0); return nil })
			none = append(none, o)
			continue
		}
		if k == 5 { // inserted with a short TTL extended in the insert itself: far (stays) or a little (goes later)
			if rnd.Intn(2) == 0 {
				long = append(long, insertExtended(time.Duration(100+rnd.Intn(100))*time.Millisecond, time.Hour))
			} else {
				short = append(short, insertExtended(time.Duration(50+rnd.Intn(100))*time.Millisecond, time.Duration(100+rnd.Intn(200))*time.Millisecond))
			}
			continue
		}
		switch k {
		case 1:
			ttl = time.Duration(30+rnd.Intn(300)) * time.Millisecond
		case 2:
			ttl = time.Hour
		case 3:
			ttl = time.Duration(150+rnd.Intn(200)) * time.Millisecond
		}
		o, _ := P.Insert(func(r column.Row) error {
			r.SetInt("a", i)
			if ttl > 0 {
				t0 := time.Now()
				r.SetTTL(ttl)
				logSet(r.Index(), t0, ttl)
			}
			return nil
		})
		switch k {
		case 4: // no TTL at first; set (through an accessor taken earlier), or set and extended, in one later transaction
			if rnd.Intn(3) == 0 {
				gap := time.Duration(20+rnd.Intn(40)) * time.Millisecond
				if rnd.Intn(2) == 0 {
					lateSet(o, gap, time.Hour)
					long = append(long, o)
				} else {
					lateSet(o, gap, time.Duration(80+rnd.Intn(200))*time.Millisecond)
					short = append(short, o)
				}
			} else if rnd.Intn(2) == 0 {
				setExtend(o, time.Duration(100+rnd.Intn(100))*time.Millisecond, time.Hour)
				long = append(long, o)
			} else {
				setExtend(o, time.Duration(50+rnd.Intn(100))*time.Millisecond, time.Duration(100+rnd.Intn(200))*time.Millisecond)
				short = append(short, o)
			}
		case 0:
			none = append(none, o)
		case 1:
			short = append(short, o)
		case 2:
			long = append(long, o)
		case 3:
			ext = append(ext, o)
		}
	}
	if p.Bait {
		ttl := 120 * time.Millisecond
		bait, _ = P.Insert(func(r column.Row) error { t0 := time.Now(); r.SetTTL(ttl); logSet(r.Index(), t0, ttl); return nil })
		hookMu.Lock()
		baitDeadline, baitArmed = time.Now().Add(ttl+2*time.Millisecond), true
		hookMu.Unlock()
	}
	poll("P", P)
	// rows of kind ext are extended before they are due: some far, some by small steps
	for _, o := range ext {
		if rnd.Intn(2) == 0 {
			extend(o, time.Hour)
		} else {
			extend(o, time.Duration(100+rnd.Intn(200))*time.Millisecond)
		}
	}
	var S, R *column.Collection
	snapAt := 300 + rnd.Intn(400)
	snapped := false
	for ms() < p.RunMs {
		time.Sleep(time.Duration(10+rnd.Intn(20)) * time.Millisecond)
		switch rnd.Intn(5) {
		case 0: // unrelated update of a row that stays
			if len(long)+len(none) > 0 {
				all := append(append([]uint32{}, long...), none...)
				o := all[rnd.Intn(len(all))]
				P.QueryAt(o, func(r column.Row) error { r.MergeInt("a", 1); return nil })
			}
		case 1: // a late insert with a short TTL
			if ms() < p.RunMs-3500 {
				ttl := time.Duration(20+rnd.Intn(100)) * time.Millisecond
				P.Insert(func(r column.Row) error { t0 := time.Now(); r.SetTTL(ttl); logSet(r.Index(), t0, ttl); return nil })
			}
		case 2:
			if len(long) > 0 && rnd.Intn(3) == 0 {
				// the time-to-live of a row is cleared (zero: never expires), through the row or through the accessor
				// (from here on it is a row without time-to-live: it is not extended any more - Extend on a row that has no
				// deadline gives it one in 1970, DESIGN 21.7)
				k := rnd.Intn(len(long))
				o := long[k]
				long = append(long[:k], long[k+1:]...)
				none = append(none, o)
				if rnd.Intn(2) == 0 {
					P.QueryAt(o, func(r column.Row) error { r.SetTTL(0); return nil })
				} else {
					P.Query(func(txn *column.Txn) error {
						return txn.QueryAt(o, func(column.Row) error { txn.TTL().Set(0); return nil })
					})
				}
			} else if len(long) > 0 {
				extend(long[rnd.Intn(len(long))], time.Minute)
			}
		case 3: // a late row WITHOUT time-to-live: it usually takes the offset of a row that has expired, and must stay
			if ms() > 600 && ms() < p.RunMs-1000 {
				o, err := P.Insert(func(r column.Row) error { r.SetInt("a", -1); return nil })
				if err == nil {
					none = append(none, o)
				}
			}
		}
		poll("P", P)
		if !snapped && ms() > snapAt {
			snapped = true
			// the deadlines survive snapshot/restore and replication; the copies' own vacuum removes what expires
			var buf bytes.Buffer
			if err := P.Snapshot(&buf); err == nil {
				var slog *expLogger
				S, slog = mk("S")
				_ = slog
				defer S.Close()
				if err := S.Restore(&buf); err != nil {
					w.T.Log(Ev{"e": "unsupported", "what": "restore: " + err.Error()})
				}
			}
			var rlog *expLogger
			R, rlog = mk("R")
			_ = rlog
			defer R.Close()
			plog.mu.Lock()
			cms := append([]commit.Commit{}, plog.stored...)
			plog.mu.Unlock()
			for _, cm := range cms {
				cp := cm.Clone()
				R.Replay(cp)
			}
			for _, pair := range []struct {
				n string
				c *column.Collection
			}{{"S", S}, {"R", R}} {
				if pair.c == nil {
					continue
				}
				for _, o := range append(append([]uint32{}, long...), none...) {
					pair.c.QueryAt(o, func(r column.Row) error {
						v, _ := r.Int64("expire")
						d := 0
						if v != 0 {
							d = int(time.Unix(0, v).Sub(start) / time.Millisecond)
						}
						w.T.Log(Ev{"e": "xcopy", "c": pair.n, "src": "P", "o": int(o), "d": d})
						return nil
					})
				}
			}
		}
		if S != nil {
			poll("S", S)
		}
		if R != nil {
			poll("R", R)
		}
	}
	return w.T.Finish()
}
