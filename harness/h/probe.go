package h

import "github.com/kelindar/column"

// presenceProbe returns a cheap "does the row under the cursor hold a value in this column" test,
// built once per transaction (used for the many filler rows of a dump).
func presenceProbe(txn *column.Txn, d ColDesc) func() bool {
	name := d.Name
	switch d.Repr {
	case "bool":
		a := txn.Bool(name)
		return func() bool { return a.Get() }
	case "string":
		a := txn.String(name)
		return func() bool { _, ok := a.Get(); return ok }
	case "enum":
		a := txn.Enum(name)
		return func() bool { _, ok := a.Get(); return ok }
	case "key":
		a := txn.Key()
		// the key of a filler row ("f<n>") does not make it a row with values
		return func() bool { v, ok := a.Get(); return ok && !(len(v) > 1 && v[0] == 'f') }
	case "record", "recordvar":
		a := txn.Record(name)
		return func() bool { _, ok := a.Get(); return ok }
	case "int":
		a := txn.Int(name)
		return func() bool { _, ok := a.Get(); return ok }
	case "int16":
		a := txn.Int16(name)
		return func() bool { _, ok := a.Get(); return ok }
	case "int32":
		a := txn.Int32(name)
		return func() bool { _, ok := a.Get(); return ok }
	case "int64":
		a := txn.Int64(name)
		return func() bool { _, ok := a.Get(); return ok }
	case "uint":
		a := txn.Uint(name)
		return func() bool { _, ok := a.Get(); return ok }
	case "uint16":
		a := txn.Uint16(name)
		return func() bool { _, ok := a.Get(); return ok }
	case "uint32":
		a := txn.Uint32(name)
		return func() bool { _, ok := a.Get(); return ok }
	case "uint64":
		a := txn.Uint64(name)
		return func() bool { _, ok := a.Get(); return ok }
	case "float32":
		a := txn.Float32(name)
		return func() bool { _, ok := a.Get(); return ok }
	case "float64":
		a := txn.Float64(name)
		return func() bool { _, ok := a.Get(); return ok }
	}
	panic("presenceProbe: " + d.Repr)
}
