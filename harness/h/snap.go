package h

import (
	"bytes"
	"fmt"
	"io"
)

// SnapHook logs the snapshot protocol points (called from the scheduling hook).
func (w *World) SnapHook(point string, chunk uint32) {
	t := w.T.Actor()
	switch point {
	case "snap.opened":
		w.T.Log(Ev{"e": "snap", "t": t, "c": w.snapColl(t), "at": "opened"})
	case "snap.block":
		w.T.Log(Ev{"e": "snap", "t": t, "at": "block", "b": int(chunk)})
	case "snap.closing":
		w.T.Log(Ev{"e": "snap", "t": t, "at": "closing"})
	case "snap.copying":
		w.T.Log(Ev{"e": "snap", "t": t, "at": "copying"})
	}
}

func (w *World) snapColl(t string) string {
	w.tmu.Lock()
	defer w.tmu.Unlock()
	return w.snapOf[t]
}

// Snapshot takes a snapshot of c into dst (nil: an in-memory buffer kept under name).
func (c *Coll) Snapshot(t, name string, dst io.Writer) error {
	w := c.W
	w.tmu.Lock()
	w.snapOf[t] = c.Name
	w.tmu.Unlock()
	var buf bytes.Buffer
	if dst == nil {
		dst = &buf
	}
	err := c.C.Snapshot(dst)
	e := Ev{"e": "snap", "t": t, "c": c.Name, "at": "ret", "err": err != nil, "file": name, "dstfailed": false}
	if fw, ok := dst.(*FaultyWriter); ok {
		e["dstfailed"] = fw.failed // the destination returned an error from at least one Write call
	}
	if err != nil {
		e["msg"] = err.Error()
	}
	w.T.Log(e)
	if err == nil {
		w.Blobs[name] = buf.Bytes()
	}
	return err
}

// Restore restores c from the named snapshot (cut >= 0: only the first cut bytes of it).
func (c *Coll) Restore(t, name string, cut int) error {
	w := c.W
	blob := w.Blobs[name]
	trunc := cut >= 0 && cut < len(blob)
	if trunc {
		blob = blob[:cut]
	}
	w.T.SetCur(t)
	c.Restoring = true
	w.T.Log(Ev{"e": "restore", "t": t, "c": c.Name, "file": name, "at": "begin", "trunc": trunc})
	var err error
	func() {
		defer func() {
			if r := recover(); r != nil {
				w.T.Log(Ev{"e": "panic", "t": t, "what": fmt.Sprint(r)})
				err = fmt.Errorf("panic: %v", r)
			}
		}()
		err = c.C.Restore(bytes.NewReader(blob))
	}()
	c.Restoring = false
	e := Ev{"e": "restore", "t": t, "c": c.Name, "at": "end", "err": err != nil}
	if err != nil {
		e["msg"] = err.Error()
	}
	w.T.Log(e)
	w.T.SetCur("m")
	return err
}
