package h

import "github.com/kelindar/column"

// InstallSeqHook makes the scheduling hook log the release of a block's latch (commit.after);
// the sequential driver never parks.
func InstallSeqHook(w *World) {
	column.VerifYield = func(point string, txn *column.Txn, chunk uint32) {
		if point == "commit.after" && !w.Bulk {
			w.T.Log(Ev{"e": "after", "t": w.T.Actor()})
		}
		if point == "key.checked" {
			w.KeyHook()
		}
		if len(point) > 5 && point[:5] == "snap." {
			w.SnapHook(point, chunk)
		}
	}
}

func UninstallHook() { column.VerifYield = nil }
