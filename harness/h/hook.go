package h

import "github.com/kelindar/column"

// the sequential hook: logs protocol points, never parks; an extra callback can be layered on top
var seqHook func(point string, chunk uint32)

func verifHook() func(point string, chunk uint32)     { return seqHook }
func setVerifHook(f func(point string, chunk uint32)) { seqHook = f }

// InstallSeqHook makes the scheduling hook log the release of a block's latch (commit.after), the
// key lookups that missed and the snapshot protocol points; the sequential driver never parks.
func InstallSeqHook(w *World) {
	seqHook = func(point string, chunk uint32) {
		if point == "commit.after" && !w.Bulk {
			w.T.Log(Ev{"e": "after", "t": w.T.Actor()})
		}
		if point == "key.checked" {
			w.KeyHook()
		}
		if len(point) > 5 && point[:5] == "snap." {
			w.SnapHook(point, chunk)
		}
	}
	column.VerifYield = func(point string, txn *column.Txn, chunk uint32) { seqHook(point, chunk) }
}

func UninstallHook() { column.VerifYield = nil }
