package h

import (
	"errors"
	"sort"

	"github.com/kelindar/column"
)

var ErrFail = errors.New("harness: requested failure")

// W is one buffered write: column, kind (put | mrg), value.
type W struct {
	Col string
	K   string
	V   any
}

// Tx wraps a running transaction and logs what it does.
type Tx struct {
	C     *Coll
	T     string
	Txn   *column.Txn
	setup bool
}

// Txn runs one transaction of actor t; body returning an error rolls it back.
func (c *Coll) Txn(t string, body func(x *Tx) error) error {
	tr := c.W.T
	tr.Log(Ev{"e": "begin", "t": t, "c": c.Name})
	err := c.C.Query(func(txn *column.Txn) error {
		x := &Tx{C: c, T: t, Txn: txn}
		if err := body(x); err != nil {
			return err
		}
		tr.Log(Ev{"e": "commitstart", "t": t})
		return nil
	})
	if err != nil {
		tr.Log(Ev{"e": "rollback", "t": t, "fired": c.takeFired()})
	}
	return err
}

// ---- the collection's one-call shortcuts (each wraps a whole transaction) ---------------------

// ShortInsert inserts one row through Collection.Insert. The events a transaction logs after its body
// (commitstart) are logged at the end of the insert callback: nothing but the commit follows it.
func (c *Coll) ShortInsert(t string, ws []W, fail bool) (uint32, error) {
	tr := c.W.T
	tr.Log(Ev{"e": "begin", "t": t, "c": c.Name})
	var at uint32
	got, err := c.C.Insert(func(r column.Row) error {
		at = r.Index()
		c.W.Track(at)
		tr.Log(Ev{"e": "reserve", "t": t, "o": int(at)})
		for _, w := range ws {
			d, _ := c.Desc(w.Col)
			c.Write(t, r, d, w.K, w.V)
		}
		if fail {
			return ErrFail
		}
		tr.Log(Ev{"e": "commitstart", "t": t})
		return nil
	})
	if err != nil {
		tr.Log(Ev{"e": "insfail", "t": t, "o": int(at)})
		tr.Log(Ev{"e": "rollback", "t": t, "fired": c.takeFired()})
	} else if got != at {
		tr.Log(Ev{"e": "mismatch", "what": "Collection.Insert returned another offset than Row.Index inside the callback", "got": int(got), "o": int(at)})
	}
	if (err != nil) != fail {
		tr.Log(Ev{"e": "mismatch", "what": "Collection.Insert: error returned iff the callback failed", "err": err != nil, "fail": fail})
	}
	return at, err
}

// ShortAt writes (and reads) one row through Collection.QueryAt; fail makes the callback return an error.
func (c *Coll) ShortAt(t string, o uint32, ws []W, read bool, flavor int, fail bool) {
	tr := c.W.T
	c.W.Track(o)
	tr.Log(Ev{"e": "begin", "t": t, "c": c.Name})
	err := c.C.QueryAt(o, func(r column.Row) error {
		if read && flavor != 1 {
			vals := Ev{}
			for _, d := range c.Cols {
				vals[d.Name] = c.ReadRow(nil, r, d, flavor)
			}
			tr.Log(Ev{"e": "read", "t": t, "o": int(o), "vals": vals})
		}
		for _, w := range ws {
			d, _ := c.Desc(w.Col)
			c.Write(t, r, d, w.K, w.V)
		}
		if fail {
			return ErrFail
		}
		tr.Log(Ev{"e": "commitstart", "t": t})
		return nil
	})
	if err != nil {
		tr.Log(Ev{"e": "rollback", "t": t, "fired": c.takeFired()})
	}
	if (err != nil) != fail {
		tr.Log(Ev{"e": "mismatch", "what": "Collection.QueryAt: error returned iff the callback failed", "err": err != nil, "fail": fail})
	}
}

// ShortDelete deletes one row through Collection.DeleteAt. The call gives no chance to log between the decision and
// the commit, so the decision (is the offset in the selection the transaction takes right now?) is observed from a
// transaction of its own just before, logged, and compared with what the call returns.
func (c *Coll) ShortDelete(t string, o uint32) bool {
	tr := c.W.T
	c.W.Track(o)
	tr.Log(Ev{"e": "begin", "t": t, "c": c.Name})
	var offs []uint32
	in := false
	c.C.Query(func(t2 *column.Txn) error {
		t2.Range(func(idx uint32) {
			offs = append(offs, idx)
			in = in || idx == o
		})
		return nil
	})
	rows, filler := c.W.runs(offs)
	tr.Log(Ev{"e": "sel", "t": t, "rows": rows, "filler": filler})
	if in {
		tr.Log(Ev{"e": "del", "t": t, "o": int(o)})
	} else {
		tr.Log(Ev{"e": "delmiss", "t": t, "o": int(o)})
	}
	tr.Log(Ev{"e": "commitstart", "t": t})
	got := c.C.DeleteAt(o)
	if got != in {
		tr.Log(Ev{"e": "mismatch", "what": "Collection.DeleteAt: true iff the row was there", "got": got, "want": in})
	}
	return got
}

// runs splits sorted offsets into individually tracked ones and maximal runs of untracked ones.
func (w *World) runs(offs []uint32) (rows []int, filler [][2]int) {
	rows = []int{}
	filler = [][2]int{}
	for _, o := range offs {
		if w.IsTracked(o) {
			rows = append(rows, int(o))
			continue
		}
		if n := len(filler); n > 0 && filler[n-1][1] == int(o)-1 {
			filler[n-1][1] = int(o)
		} else {
			filler = append(filler, [2]int{int(o), int(o)})
		}
	}
	return
}

// Sel forces the selection to be taken now (txn.Count) and logs it.
func (x *Tx) Sel() {
	if x.setup {
		return
	}
	x.setup = true
	x.Txn.Count()
	var offs []uint32
	x.Txn.Range(func(idx uint32) { offs = append(offs, idx) })
	rows, filler := x.C.W.runs(offs)
	x.C.W.T.Log(Ev{"e": "sel", "t": x.T, "rows": rows, "filler": filler})
}

// Insert inserts a row, buffering the writes from inside the insert callback; fail makes the
// callback return an error after the writes.
func (x *Tx) Insert(ws []W, fail bool) (uint32, error) {
	c := x.C
	var at uint32
	_, err := x.Txn.Insert(func(r column.Row) error {
		at = r.Index()
		c.W.Track(at)
		c.W.T.Log(Ev{"e": "reserve", "t": x.T, "o": int(at)})
		for _, w := range ws {
			d, _ := c.Desc(w.Col)
			c.Write(x.T, r, d, w.K, w.V)
		}
		if fail {
			return ErrFail
		}
		return nil
	})
	if err != nil {
		c.W.T.Log(Ev{"e": "insfail", "t": x.T, "o": int(at)})
	}
	return at, err
}

// At positions on row o (point access under the block's read latch), writes and optionally reads.
func (x *Tx) At(o uint32, ws []W, read bool, flavor int) {
	c := x.C
	c.W.Track(o)
	x.Txn.QueryAt(o, func(r column.Row) error {
		if read {
			vals := Ev{}
			for _, d := range c.Cols {
				vals[d.Name] = c.ReadRow(x.Txn, r, d, flavor)
			}
			c.W.T.Log(Ev{"e": "read", "t": x.T, "o": int(o), "vals": vals})
		}
		for _, w := range ws {
			d, _ := c.Desc(w.Col)
			c.Write(x.T, r, d, w.K, w.V)
		}
		return nil
	})
}

// Delete buffers a row delete through DeleteAt (which consults the selection).
func (x *Tx) Delete(o uint32) bool {
	x.Sel()
	x.C.W.Track(o)
	ok := x.Txn.DeleteAt(o)
	if ok {
		x.C.W.T.Log(Ev{"e": "del", "t": x.T, "o": int(o)})
	} else {
		x.C.W.T.Log(Ev{"e": "delmiss", "t": x.T, "o": int(o)})
	}
	return ok
}

// DeleteAll deletes every row of the transaction's selection (txn.DeleteAll). The caller narrows the selection
// to tracked rows first (a filter on a value column or an index: filler rows hold no values).
func (x *Tx) DeleteAll() {
	x.Sel()
	x.Txn.DeleteAll()
	x.C.W.T.Log(Ev{"e": "delall", "t": x.T})
}

// ---- projection ------------------------------------------------------------------------------

// Dump logs the projection of the collection as seen through the public API.
// flavor selects the accessor family used to read values (0 Row.X via QueryAt, 1 txn accessors
// inside Range, 2 Row.Any via QueryAt).
func (c *Coll) Dump(flavor int) []uint32 {
	w := c.W
	var offs []uint32
	vals := map[uint32]Ev{}
	ix := map[uint32]Ev{}
	untrackedWithValue := map[uint32]bool{}
	tcount := 0
	sorted := map[string][][2]any{}
	c.C.Query(func(txn *column.Txn) error {
		tcount = txn.Count()
		probes := make([]func() bool, len(c.Cols))
		for i, d := range c.Cols {
			probes[i] = presenceProbe(txn, d)
		}
		w.tmu.Lock()
		trackedNow := make(map[uint32]bool, len(w.tracked))
		for o := range w.tracked {
			trackedNow[o] = true
		}
		w.tmu.Unlock()
		txn.Range(func(idx uint32) {
			offs = append(offs, idx)
			tracked := trackedNow[idx]
			if tracked && flavor != 1 {
				return
			}
			if !tracked {
				bare := true
				for _, pr := range probes {
					if pr() {
						bare = false
						break
					}
				}
				if bare {
					return
				}
			}
			v := Ev{}
			any := false
			for _, d := range c.Cols {
				p := c.ReadRow(txn, column.Row{}, d, 1)
				v[d.Name] = p
				if p[0].(bool) {
					any = true
				}
			}
			if tracked {
				vals[idx] = v
			} else if any {
				untrackedWithValue[idx] = true
				vals[idx] = v
			}
		})
		for _, s := range c.Sorts {
			d, attached := c.Desc(s[1])
			seq := [][2]any{}
			txn.Ascend(s[0], func(idx uint32) {
				w.Track(idx)
				if !attached { // the sorted column was dropped: nothing to read at the stop
					seq = append(seq, [2]any{int(idx), []int{}})
					return
				}
				p := c.ReadRow(txn, column.Row{}, d, 1)
				seq = append(seq, [2]any{int(idx), p[1]})
			})
			sorted[s[0]] = seq
		}
		return nil
	})
	for o := range untrackedWithValue {
		w.Track(o)
	}
	// index membership through With(index); rows found there become tracked
	member := map[string]map[uint32]bool{}
	for _, x := range c.Idx {
		name := x.Name
		in := map[uint32]bool{}
		c.C.Query(func(txn *column.Txn) error {
			txn.With(name).Range(func(idx uint32) { in[idx] = true; w.Track(idx) })
			return nil
		})
		member[name] = in
	}
	// point reads (QueryAt) for every tracked row that has not been read inside Range
	c.C.Query(func(txn *column.Txn) error {
		for _, o := range offs {
			if !w.IsTracked(o) {
				continue
			}
			fl := flavor
			if fl == 1 {
				if vals[o] != nil {
					continue
				}
				fl = 0
			}
			txn.QueryAt(o, func(r column.Row) error {
				if vals[o] == nil {
					v := Ev{}
					for _, d := range c.Cols {
						v[d.Name] = c.ReadRow(txn, r, d, fl)
					}
					vals[o] = v
				}
				if flavor == 0 {
					m := Ev{}
					for _, x := range c.Idx {
						m[x.Name] = r.Bool(x.Name)
					}
					ix[o] = m
				}
				return nil
			})
		}
		return nil
	})
	for _, o := range offs {
		if !w.IsTracked(o) || (flavor == 0 && ix[o] != nil) {
			continue
		}
		m := Ev{}
		for _, x := range c.Idx {
			m[x.Name] = member[x.Name][o]
		}
		ix[o] = m
	}
	sort.Slice(offs, func(i, j int) bool { return offs[i] < offs[j] })
	tr, filler := w.runs(offs)
	rows := []Ev{}
	for _, o := range tr {
		m := ix[uint32(o)]
		if m == nil {
			m = Ev{}
		}
		rows = append(rows, Ev{"o": o, "vals": vals[uint32(o)], "ix": m})
	}
	keys := Ev{}
	for _, k := range c.Keys {
		found, at := false, 0
		c.C.QueryKey(KeyTokens[k], func(r column.Row) error { found, at = true, int(r.Index()); return nil })
		keys[k] = [2]any{found, at}
	}
	e := Ev{"e": "dump", "c": c.Name, "count": c.C.Count(), "tcount": tcount, "rows": rows, "filler": filler,
		"keys": keys, "sorted": sorted, "flavor": flavor}
	// ascending iteration over a NARROW selection as well: the rows whose value in another (numeric) column equals k
	if len(c.Sorts) > 0 {
		var ic *ColDesc
		for i, d := range c.Cols {
			isSorted := false
			for _, s := range c.Sorts {
				isSorted = isSorted || s[1] == d.Name
			}
			if d.Kind == "int" && !isSorted {
				ic = &c.Cols[i]
				break
			}
		}
		if ic != nil {
			k := w.T.Len() % 10
			// (preferably the value of a row that holds NO value in the sorted column: if ascending iteration were to visit a row
			// it should not, it would be such a row)
			var cand []int
			for _, o := range tr {
				v := vals[uint32(o)]
				if v == nil {
					continue
				}
				pa, okA := v[ic.Name].([2]any)
				ps, okS := v[c.Sorts[0][1]].([2]any)
				if okA && okS && pa[0] == true && ps[0] == false {
					cand = append(cand, toInt(pa[1]))
				}
			}
			if len(cand) > 0 {
				k = cand[w.T.Len()%len(cand)]
			}
			narrow := map[string][][2]any{}
			c.C.Query(func(txn *column.Txn) error {
				txn.WithValue(ic.Name, func(v any) bool { return toInt(c.fromAny(*ic, v)) == k })
				for _, s := range c.Sorts {
					d, attached := c.Desc(s[1])
					seq := [][2]any{}
					txn.Ascend(s[0], func(idx uint32) {
						if !attached {
							seq = append(seq, [2]any{int(idx), []int{}})
							return
						}
						p := c.ReadRow(txn, column.Row{}, d, 1)
						seq = append(seq, [2]any{int(idx), p[1]})
					})
					narrow[s[0]] = seq
				}
				return nil
			})
			e["narrow"] = Ev{"col": ic.Name, "k": k, "seq": narrow}
		}
	}
	w.T.Log(e)
	return offs
}
