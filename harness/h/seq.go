package h

import (
	"fmt"
	"math/rand"
	"runtime/debug"
)

// SeqProfile parameterises the random sequential history generator. The generator is online: it
// chooses the next step from what it has observed (the offsets of the last dump), never from a
// model of the store.
type SeqProfile struct {
	OneShot   bool // (c19) a hidden self-dropping trigger is registered before every recorded trigger
	Name      string
	Cols      []ColDesc // columns created up front
	Late      []ColDesc // columns that may be created later, over existing rows
	Idx       []IdxDesc // indexes that may be created / dropped at any point
	Sorts     [][2]string
	Trigs     [][2]string
	Capacity  int
	Transport string  // "chan" | "log"
	Keyed     bool    // the collection has a primary key column: rows are created by InsertKey / UpsertKey
	Collide   bool    // use both enum strings of the 32-bit hash collision pair
	Lag       float64 // probability that the replica does NOT catch up at a dump (it always does at the end)
	Replica   bool    // keep a replica R fed from the stream and dump it too
	Chain     bool    // R emits its own stream (it is a primary too): a second replica R2 is fed from it
	Prologue  string  // "", "block1", "sparse", "three"
	Steps     int
	PFailIns  float64 // an insert callback fails
	PRollback float64 // a transaction ends in an error
	PSchema   float64 // a step is a schema change
	PSnap     float64 // a step is snapshot -> restore into a fresh collection -> continue there
	PObserve  float64 // the body looks at the collection from a second transaction (dump) at some point
	PDelAll   float64 // a body step narrows the selection with a filter and deletes all of it (txn.DeleteAll)
	PDropCol  float64 // a schema step may drop a data column (and later create it again)
	Wide      bool    // row accesses write most of the columns, not a few
	PSchemaIn float64 // between two operations of an open transaction an index is created or dropped
	PBulkDel  float64 // a step deletes a run of value-less prologue rows in block 0 (Count drops below the highest offset's block)
	SortFirst bool    // create the sorted indexes before any data
	Many      int     // rows with values inserted right after the prologue (a sorted index / selection of some size)
	SortAt    int     // (when not SortFirst) the step at which the sorted indexes are created over the data that exists by then
	IdxFirst  bool    // create the bitmap indexes and triggers before any data, in the order listed
	PIdxStep  float64 // probability that a schema step is an index create / drop (else the kind is drawn uniformly)
	PDelete   float64
	PInsert   float64
	MaxBody   int
}

type seqGen struct {
	p        SeqProfile
	rnd      *rand.Rand
	w        *World
	P, R     *Coll
	R2       *Coll // a replica of the replica (fed from R's own stream), or nil
	live     []uint32
	dumpN    int
	final    bool
	affine   map[string]int // (col,row) -> affine merges since the last put (keeps numbers small)
	dropped  []ColDesc      // data columns dropped so far and not created again
	bulkNext int            // next value-less prologue row (relative to 200) that a mid-history bulk delete takes
}

func (g *seqGen) value(d ColDesc, k string) any {
	switch d.Kind {
	case "int":
		if k == "mrg" {
			return g.rnd.Intn(4) // (a zero delta is a merge like any other: an empty cell becomes present with the merged value)
		}
		return g.rnd.Intn(10)
	case "str":
		n := g.rnd.Intn(4)
		if k == "mrg" {
			n = g.rnd.Intn(3)
		}
		s := make([]int, n)
		for i := range s {
			s[i] = g.rnd.Intn(3)
		}
		return s
	case "bool":
		return g.rnd.Intn(2) == 0
	case "enum":
		names := []string{"e1", "e2", "e3", "empty", "long", "k9870"}
		if g.p.Collide {
			names = append(names, "k53003")
		}
		return names[g.rnd.Intn(len(names))]
	case "tok", "key":
		names := TokenNames(d.Repr)
		return names[g.rnd.Intn(len(names))]
	}
	panic("value: " + d.Kind)
}

func (g *seqGen) writes(cols []ColDesc, n int, o uint32, haveOffset bool) []W {
	var ws []W
	for i := 0; i < n && len(cols) > 0; i++ {
		d := cols[g.rnd.Intn(len(cols))]
		if d.Kind == "key" {
			continue
		}
		k := "put"
		if d.Merge != "" && (d.Kind == "int" || d.Kind == "str") && g.rnd.Intn(2) == 0 {
			k = "mrg"
		}
		if d.Merge == "" && d.Kind == "str" && d.Repr == "string" && g.rnd.Intn(4) == 0 {
			k = "mrg" // a string column without a merge function: the delta replaces the value (the library's default)
		}
		if d.Merge == "affine" && haveOffset {
			key := fmt.Sprintf("%s/%d", d.Name, o)
			if k == "mrg" {
				if g.affine[key] >= 10 {
					k = "put"
				} else {
					g.affine[key]++
				}
			}
			if k == "put" {
				g.affine[key] = 0
			}
		} else if d.Merge == "affine" && k == "mrg" {
			k = "put"
		}
		ws = append(ws, W{d.Name, k, g.value(d, k)})
	}
	return ws
}

func (g *seqGen) dump() {
	g.live = g.P.Dump(g.dumpN % 3)
	g.dumpN++
	tracked := g.live[:0:0]
	for _, o := range g.live {
		if g.w.IsTracked(o) {
			tracked = append(tracked, o)
		}
	}
	g.live = tracked
	if g.R != nil && (g.final || g.rnd.Float64() >= g.p.Lag) {
		g.P.ReplayTo(g.R, "r")
		g.R.Dump(g.dumpN % 3)
		if g.R2 != nil && (g.final || g.rnd.Float64() >= g.p.Lag) {
			g.R.ReplayTo(g.R2, "r2")
			g.R2.Dump(g.dumpN % 3)
		}
	}
}

// indexStep creates one of the profile's bitmap indexes, or drops it if it exists (on the primary and its copies). It is
// also called in the middle of an open transaction (between two of its operations, no latch held): an index created then
// is back-filled from the committed values and must see what that transaction commits later.
func (g *seqGen) indexStep() {
	c := g.P
	if len(g.p.Idx) == 0 {
		return
	}
	x := g.p.Idx[g.rnd.Intn(len(g.p.Idx))]
	if _, ok := c.Desc(x.Col); !ok {
		return
	}
	all := []*Coll{g.P}
	for _, r := range []*Coll{g.R, g.R2} {
		if r != nil {
			all = append(all, r)
		}
	}
	for _, y := range c.Idx {
		if y.Name == x.Name {
			for _, c := range all {
				c.DropIndex(x.Name)
			}
			return
		}
	}
	for _, c := range all {
		c.CreateIndex(x)
	}
}

// nwrites: wide profiles write most columns of the row in one go
func (g *seqGen) nwrites(n int) int {
	if g.p.Wide && g.rnd.Intn(2) == 0 {
		return 12 + g.rnd.Intn(24)
	}
	return n
}

func (g *seqGen) isDropped(name string) bool {
	for _, d := range g.dropped {
		if d.Name == name {
			return true
		}
	}
	return false
}

func (g *seqGen) pick() (uint32, bool) {
	if len(g.live) == 0 {
		return 0, false
	}
	return g.live[g.rnd.Intn(len(g.live))], true
}

func (g *seqGen) schemaStep() {
	c := g.P
	both := func(f func(c *Coll)) {
		f(g.P)
		if g.R != nil {
			f(g.R)
		}
		if g.R2 != nil {
			f(g.R2)
		}
	}
	n := 4
	if g.p.PDropCol > 0 {
		n = 5
	}
	kind := g.rnd.Intn(n)
	if g.rnd.Float64() < g.p.PIdxStep {
		kind = 1
	}
	switch kind {
	case 4: // drop a data column (what was computed from it stays, detached); it may come back later, empty
		if g.rnd.Float64() >= g.p.PDropCol {
			return
		}
		var cand []ColDesc
		for _, d := range c.Cols {
			if d.Kind != "key" && d.Name != "expire" {
				cand = append(cand, d)
			}
		}
		if len(cand) < 2 {
			return
		}
		d := cand[g.rnd.Intn(len(cand))]
		g.dropped = append(g.dropped, d)
		if g.R != nil { // the replica is brought up to date first: the stream carries no schema changes
			g.P.ReplayTo(g.R, "r")
			if g.R2 != nil {
				g.R.ReplayTo(g.R2, "r2")
			}
		}
		both(func(c *Coll) { c.DropColumn(d.Name) })
	case 0: // late column, or a dropped one again
		if len(g.dropped) > 0 && g.rnd.Intn(2) == 0 {
			d := g.dropped[0]
			g.dropped = g.dropped[1:]
			both(func(c *Coll) { c.CreateColumn(d) })
			return
		}
		for _, d := range g.p.Late {
			if _, ok := c.Desc(d.Name); !ok && !g.isDropped(d.Name) {
				d := d
				both(func(c *Coll) { c.CreateColumn(d) })
				return
			}
		}
	case 1: // index create / drop
		g.indexStep()
	case 2: // trigger create / drop
		if len(g.p.Trigs) == 0 {
			return
		}
		x := g.p.Trigs[g.rnd.Intn(len(g.p.Trigs))]
		if _, ok := c.Desc(x[1]); !ok {
			return
		}
		for _, y := range c.Trigs {
			if y[0] == x[0] {
				both(func(c *Coll) { c.DropTrigger(x[0]) })
				return
			}
		}
		both(func(c *Coll) { c.CreateTrigger(x[0], x[1]) })
	case 3: // sorted index (never dropped: DropIndex of a sorted index is the same code path)
		for _, x := range g.p.Sorts {
			if _, ok := c.Desc(x[1]); !ok {
				continue
			}
			exists := false
			for _, y := range c.Sorts {
				if y[0] == x[0] {
					exists = true
				}
			}
			if !exists {
				x := x
				both(func(c *Coll) { c.CreateSort(x[0], x[1]) })
				return
			}
		}
	}
}

func (g *seqGen) prologue() {
	c := g.P
	switch g.p.Prologue {
	case "block1": // tracked rows straddle the first block boundary
		c.BulkInsert(16384 - 3 - g.rnd.Intn(3))
	case "sparse": // holes across 64-bit word boundaries in block 0, tail near the block boundary
		c.BulkInsert(16384 - 2)
		c.BulkDelete(60, 66)
		c.BulkDelete(127, 128)
		c.BulkDelete(uint32(1000+g.rnd.Intn(64)), uint32(1070+g.rnd.Intn(10)))
	case "three": // three blocks
		c.BulkInsert(2*16384 - 2)
		c.BulkDelete(16380, 16386)
	}
}

func (g *seqGen) keyStep(x *Tx, r float64) {
	p := g.p
	key := g.P.Keys[g.rnd.Intn(len(g.P.Keys))]
	nonKey := func() []ColDesc {
		var out []ColDesc
		for _, d := range g.P.Cols {
			if d.Kind != "key" {
				out = append(out, d)
			}
		}
		return out
	}()
	switch {
	case r < p.PInsert/2:
		x.InsertKey(key, g.writes(nonKey, g.rnd.Intn(3), 0, false), g.rnd.Float64() < p.PFailIns)
	case r < p.PInsert:
		x.UpsertKey(key, g.writes(nonKey, g.rnd.Intn(3), 0, false))
	case r < p.PInsert+p.PDelete/2:
		x.DeleteKey(key)
	case r < p.PInsert+p.PDelete:
		if o, ok := g.pick(); ok {
			x.Delete(o)
		}
	case r < p.PInsert+p.PDelete+0.15:
		x.QueryKey(key, g.writes(nonKey, g.rnd.Intn(2), 0, false), g.rnd.Intn(3))
	case r < p.PInsert+p.PDelete+0.3:
		if o, ok := g.pick(); ok {
			x.SetKey(o, key)
		}
	default:
		if o, ok := g.pick(); ok {
			x.At(o, g.writes(nonKey, 1+g.rnd.Intn(2), o, true), g.rnd.Intn(3) == 0, g.rnd.Intn(3))
		}
	}
}

// snapCycle snapshots the primary, restores the snapshot into a fresh collection with the same schema
// (another capacity), compares, and continues the history on the restored collection.
func (g *seqGen) snapCycle(n int) {
	w := g.w
	name := fmt.Sprintf("f%d", n)
	if g.P.Snapshot("m", name, nil) != nil {
		return
	}
	caps := []int{1, 63, 64, 1024, 16384, 20000}
	S := w.NewColl(fmt.Sprintf("S%d", n), caps[g.rnd.Intn(len(caps))], g.p.Transport, 0)
	S.Keys = g.P.Keys
	for _, d := range g.P.Cols {
		S.CreateColumn(d)
	}
	has := func(col string) bool { _, ok := g.P.Desc(col); return ok }
	for _, x := range g.P.Idx {
		if has(x.Col) {
			S.CreateIndex(x)
		}
	}
	for _, x := range g.P.Sorts {
		if has(x[1]) {
			S.CreateSort(x[0], x[1])
		}
	}
	for _, x := range g.P.Trigs {
		if has(x[1]) {
			S.CreateTrigger(x[0], x[1])
		}
	}
	S.Restore("rs", name, -1)
	g.P.Dump(1)
	g.P = S
	g.dump()
}

// RunSeq runs one random sequential history and returns its events.
func RunSeq(seed int64, p SeqProfile) (out []Ev) {
	g := &seqGen{p: p, rnd: rand.New(rand.NewSource(seed)), w: NewWorld(), affine: map[string]int{}}
	g.w.OneShot = p.OneShot
	w := g.w
	defer w.Close()
	defer func() {
		// a panic of the library is something the real code did: it is recorded, and no action of the
		// specification explains it
		if r := recover(); r != nil {
			w.T.Log(Ev{"e": "panic", "t": "m", "what": fmt.Sprint(r), "stack": string(debug.Stack())})
			out = w.T.Finish()
		}
	}()
	g.P = w.NewColl("P", p.Capacity, p.Transport, 0)
	if p.Replica {
		g.R = w.NewColl("R", p.Capacity, p.Transport, 0)
	}
	if p.Replica && p.Chain {
		g.R2 = w.NewColl("R2", p.Capacity, p.Transport, 0)
	}
	var copies []*Coll
	for _, c := range []*Coll{g.R, g.R2} {
		if c != nil {
			copies = append(copies, c)
		}
	}
	if p.Keyed {
		g.P.Keys = []string{"k0", "k1", "k2", "k3", "k4"} // k0 is the empty string
		if seed%2 == 0 {
			g.P.Keys = []string{"k0", "k1", "k9870", "k53003", "k4"} // two keys whose 32-bit hashes collide
		}
		for _, c := range copies {
			c.Keys = g.P.Keys
		}
	}
	InstallSeqHook(w)
	defer UninstallHook()
	for _, d := range p.Cols {
		g.P.CreateColumn(d)
		for _, c := range copies {
			c.CreateColumn(d)
		}
	}
	if p.IdxFirst {
		for _, x := range p.Idx {
			g.P.CreateIndex(x)
			for _, c := range copies {
				c.CreateIndex(x)
			}
		}
		for _, x := range p.Trigs {
			g.P.CreateTrigger(x[0], x[1])
			for _, c := range copies {
				c.CreateTrigger(x[0], x[1])
			}
		}
	}
	if p.SortFirst {
		for _, x := range p.Sorts {
			g.P.CreateSort(x[0], x[1])
			for _, c := range copies {
				c.CreateSort(x[0], x[1])
			}
		}
	}
	g.prologue()
	if p.Many > 0 && !p.Keyed {
		var cols []ColDesc
		for _, d := range g.P.Cols {
			if d.Kind != "key" {
				cols = append(cols, d)
			}
		}
		g.P.Txn("m", func(x *Tx) error {
			for i := 0; i < p.Many; i++ {
				var ws []W
				for _, d := range cols {
					ws = append(ws, W{d.Name, "put", g.value(d, "put")})
				}
				x.Insert(ws, false)
			}
			return nil
		})
	}
	g.dump()
	if p.PSnap > 0 && g.rnd.Intn(6) == 0 {
		// a failed first insert, then a snapshot at once
		g.P.Txn("m", func(x *Tx) error {
			if p.Keyed {
				x.InsertKey("k1", nil, true)
			} else {
				x.Insert(nil, true)
			}
			return ErrFail
		})
		g.snapCycle(9)
	}
	cycles := 0
	for step := 0; step < p.Steps; step++ {
		if g.rnd.Float64() < p.PSnap && cycles < 3 {
			cycles++
			g.snapCycle(cycles)
			continue
		}
		if !p.SortFirst && p.SortAt > 0 && step == p.SortAt {
			for _, x := range p.Sorts {
				if _, ok := g.P.Desc(x[1]); !ok {
					continue
				}
				have := false
				for _, y := range g.P.Sorts {
					have = have || y[0] == x[0]
				}
				if !have {
					g.P.CreateSort(x[0], x[1])
					if g.R != nil {
						g.R.CreateSort(x[0], x[1])
					}
					if g.R2 != nil {
						g.R2.CreateSort(x[0], x[1])
					}
				}
			}
			g.dump()
		}
		if g.p.Prologue != "" && g.bulkNext < 560 && g.rnd.Float64() < p.PBulkDel {
			// (all prologues fill 200..900 with value-less rows)
			n := 20 + g.rnd.Intn(40)
			g.P.BulkDelete(uint32(200+g.bulkNext), uint32(200+g.bulkNext+n-1))
			g.bulkNext += n
			g.dump()
			continue
		}
		if g.rnd.Float64() < p.PSchema {
			g.schemaStep()
			g.dump()
			continue
		}
		if p.Keyed && g.rnd.Float64() < 0.15 {
			// one key operation through the collection's one-call shortcuts
			key := g.P.Keys[g.rnd.Intn(len(g.P.Keys))]
			var nonKey []ColDesc
			for _, d := range g.P.Cols {
				if d.Kind != "key" {
					nonKey = append(nonKey, d)
				}
			}
			fail := g.rnd.Float64() < 0.25
			switch g.rnd.Intn(4) {
			case 0:
				g.P.ShortInsertKey("m", key, g.writes(nonKey, g.rnd.Intn(3), 0, false), fail)
			case 1:
				g.P.ShortUpsertKey("m", key, g.writes(nonKey, g.rnd.Intn(3), 0, false), fail)
			case 2:
				g.P.ShortQueryKey("m", key, g.writes(nonKey, 1+g.rnd.Intn(2), 0, false), []int{0, 2}[g.rnd.Intn(2)], fail)
			default:
				g.P.ShortDeleteKey("m", key)
			}
			g.dump()
			continue
		}
		if !p.Keyed && g.rnd.Float64() < 0.15 {
			// one operation through the collection's one-call shortcuts (Insert, QueryAt, DeleteAt)
			r := g.rnd.Float64()
			switch {
			case r < p.PInsert:
				g.P.ShortInsert("m", g.writes(g.P.Cols, g.rnd.Intn(4), 0, false), g.rnd.Float64() < p.PFailIns)
			case r < p.PInsert+p.PDelete:
				if o, ok := g.pick(); ok {
					g.P.ShortDelete("m", o)
				}
			default:
				if o, ok := g.pick(); ok {
					g.P.ShortAt("m", o, g.writes(g.P.Cols, 1+g.rnd.Intn(3), o, true), g.rnd.Intn(3) == 0, g.rnd.Intn(3), g.rnd.Float64() < p.PRollback)
				}
			}
			g.dump()
			continue
		}
		if p.Prologue == "three" && !p.Keyed && g.rnd.Float64() < 0.3 {
			// a transaction whose blocks are NOT contiguous: one row of the lowest and one of the highest block (in either
			// order), nothing in between - the blocks in between are not part of the commit
			var lo, hi []uint32
			for _, o := range g.live {
				switch {
				case o>>14 == 0:
					lo = append(lo, o)
				case o>>14 >= 2:
					hi = append(hi, o)
				}
			}
			if len(lo) > 0 && len(hi) > 0 {
				pair := []uint32{lo[g.rnd.Intn(len(lo))], hi[g.rnd.Intn(len(hi))]}
				if g.rnd.Intn(2) == 0 {
					pair[0], pair[1] = pair[1], pair[0]
				}
				g.P.Txn("m", func(x *Tx) error {
					for _, o := range pair {
						x.At(o, g.writes(g.P.Cols, g.nwrites(1+g.rnd.Intn(2)), o, true), false, g.rnd.Intn(3))
					}
					return nil
				})
				g.dump()
				continue
			}
		}
		nbody := 1 + g.rnd.Intn(p.MaxBody)
		rollback := g.rnd.Float64() < p.PRollback
		g.P.Txn("m", func(x *Tx) error {
			if g.rnd.Intn(4) == 0 {
				x.Sel()
			}
			for i := 0; i < nbody; i++ {
				if g.rnd.Float64() < p.PObserve {
					g.P.Dump(g.rnd.Intn(3))
				}
				if g.rnd.Float64() < p.PSchemaIn {
					g.indexStep()
				}
				if g.rnd.Float64() < p.PDelAll {
					// With(column or index) leaves only rows holding a value (never a filler row), then DeleteAll
					names := []string{}
					for _, d := range g.P.Cols {
						if d.Kind != "key" {
							names = append(names, d.Name)
						}
					}
					for _, ix := range g.P.Idx {
						names = append(names, ix.Name)
					}
					if len(names) > 0 {
						x.Sel()
						x.Filter(FOp{F: "with", Names: []string{names[g.rnd.Intn(len(names))]}})
						if g.rnd.Intn(2) == 0 {
							x.Filter(FOp{F: "without", Names: []string{names[g.rnd.Intn(len(names))]}})
						}
						x.DeleteAll()
						continue
					}
				}
				r := g.rnd.Float64()
				if p.Keyed {
					g.keyStep(x, r)
					continue
				}
				switch {
				case r < p.PInsert:
					fail := g.rnd.Float64() < p.PFailIns
					x.Insert(g.writes(g.P.Cols, g.nwrites(g.rnd.Intn(4)), 0, false), fail)
					if fail && g.rnd.Float64() < 0.7 {
						rollback = true // the usual pattern: the callback's error is returned
					}
				case r < p.PInsert+p.PDelete:
					if o, ok := g.pick(); ok {
						x.Delete(o)
					}
				default:
					if o, ok := g.pick(); ok {
						x.At(o, g.writes(g.P.Cols, g.nwrites(1+g.rnd.Intn(3)), o, true), g.rnd.Intn(3) == 0, g.rnd.Intn(3))
					}
				}
			}
			if rollback {
				return ErrFail
			}
			return nil
		})
		g.dump()
	}
	g.final = true
	g.dump()
	return w.T.Finish()
}
