module verif/harness

go 1.19

require (
	github.com/kelindar/bitmap v1.4.1
	github.com/kelindar/column v0.0.0
)

require (
	github.com/kelindar/intmap v1.1.0 // indirect
	github.com/kelindar/iostream v1.3.0 // indirect
	github.com/kelindar/simd v1.1.2 // indirect
	github.com/kelindar/smutex v1.0.0 // indirect
	github.com/klauspost/compress v1.16.6 // indirect
	github.com/klauspost/cpuid/v2 v2.2.5 // indirect
	github.com/tidwall/btree v1.6.0 // indirect
	github.com/zeebo/xxh3 v1.0.2 // indirect
)

replace github.com/kelindar/column => /repo
